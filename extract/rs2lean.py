#!/usr/bin/env python3
"""rs2lean — translator from the lock-holding Rust code of kanal to Lean (DESIGN §4.1b).

    rs2lean.py <src dir> <out .lean>

Every function of src/internal.rs (`impl ChannelInternal`), src/lib.rs and src/future.rs that touches the
channel lock (calls `acquire_internal` / `try_acquire_internal`), plus `ReceiveStream::poll_next`-free code,
is parsed (a recursive-descent parser for the Rust subset these functions use) and lowered to a Lean term:

  * a method of `ChannelInternal` becomes a function in continuation-passing style over `Chan`
        Gen.ChannelInternal_next_send (c : Chan) (k : Chan → Option SigId → Act) : Act
  * every other function becomes an interaction tree `Act` (Kanal/Act.lean) whose nodes are: acquiring /
    releasing the lock (the logical state `Chan` is bound at `lock` and published at `unlock`), the
    operations on the logical state (translated structurally: field reads and writes, VecDeque
    operations as list operations, calls of `ChannelInternal` methods as calls of their translations),
    and *effects* for everything outside the logical state (signal operations, value custody, future
    state, waker registration), looked up in a table of source texts below; an expression the table does
    not know becomes `Eff.unknown "<text>"`, which no tie theorem accepts.

Control flow is translated structurally (if / if let / match / while let / for / loop / return /
continue), joins by duplicating the continuation, loops with fuel (`Act.loopN`; running out of fuel is the
constructor `Act.diverge`, which no tie theorem accepts either).  Guard lifetimes follow Rust's rules:
a named guard is released by `drop(g)` or at the end of its block, a temporary guard at the end of the
enclosing statement or `if` condition, and any live guard before a `return`.

The output is compared: Kanal/TieCode.lean proves every generated definition equal to the hand-written
fine-grained model (Kanal/Fine.lean), which is built from the critical-section functions of Kanal/Chan.lean.
"""
import re, sys, os
sys.path.insert(0, os.path.dirname(os.path.abspath(__file__)))
from extract import strip_comments, strip_verif

# ----------------------------------------------------------------------------------------------- tokens
TOK = re.compile(r"""
    (?P<ws>\s+)
  | (?P<life>'[A-Za-z_][A-Za-z0-9_]*(?!'))
  | (?P<chr>'(?:\\.|[^\\'])')
  | (?P<str>"(?:\\.|[^"\\])*")
  | (?P<num>\d[\d_]*(?:\.\d+)?(?:[uif]\d+|usize)?)
  | (?P<id>[A-Za-z_][A-Za-z0-9_]*)
  | (?P<op>::|->|=>|==|!=|<=|>=|&&|\|\||\+=|-=|\.\.|[-+*/%!&|<>=.,;:(){}\[\]#?@$])
""", re.X)

def tokenize(s):
    out, i = [], 0
    while i < len(s):
        m = TOK.match(s, i)
        if not m: raise SyntaxError("cannot tokenize at: " + s[i:i+40])
        i = m.end()
        if m.lastgroup == "ws": continue
        out.append(m.group())
    return out

class P:
    """Recursive-descent parser over a token list."""
    def __init__(self, toks): self.t, self.i = toks, 0
    def peek(self, k=0): return self.t[self.i + k] if self.i + k < len(self.t) else None
    def next(self):
        x = self.t[self.i]; self.i += 1; return x
    def eat(self, x):
        if self.peek() != x: raise SyntaxError(f"expected {x!r}, found {self.peek()!r} at {' '.join(self.t[max(0,self.i-8):self.i+8])}")
        self.i += 1
    def at(self, x): return self.peek() == x
    def opt(self, x):
        if self.peek() == x: self.i += 1; return True
        return False

    # ---- helpers
    def skip_balanced(self, open_, close):
        """current token is `open_`; skip to after the matching close, return the tokens inside"""
        self.eat(open_); d, start = 1, self.i
        while d:
            x = self.next()
            if x == open_: d += 1
            elif x == close: d -= 1
        return self.t[start:self.i - 1]
    def skip_angles(self):
        self.eat("<"); d = 1
        while d:
            x = self.next()
            if x == "<": d += 1
            elif x == ">": d -= 1
            elif x == "->": pass
    def skip_attrs(self):
        attrs = []
        while self.at("#"):
            self.next(); self.opt("!")
            attrs.append("".join(self.skip_balanced("[", "]")))
        return attrs

    # ---- patterns
    def pattern(self):
        if self.opt("_"): return ("wild",)
        if self.at("("):
            self.next(); ps = []
            while not self.at(")"):
                ps.append(self.pattern()); self.opt(",")
            self.eat(")"); return ("tuple", ps)
        if self.opt("&"): return self.pattern()
        if self.opt("mut"): return ("id", self.next())
        if self.opt("ref"): self.opt("mut"); return ("id", self.next())
        if re.match(r"\d", self.peek() or ""): return ("lit", self.next())
        path = self.next()
        while self.at("::"):
            self.next(); path += "::" + self.next()
        if self.at("("):
            self.next(); ps = []
            while not self.at(")"):
                ps.append(self.pattern()); self.opt(",")
            self.eat(")"); return ("ctor", path, ps)
        if "::" in path or path[0].isupper(): return ("ctor", path, [])
        return ("id", path)

    # ---- blocks and statements
    def block(self):
        self.eat("{"); stmts = []; tail = None
        while not self.at("}"):
            attrs = self.skip_attrs()
            skip = any(a.replace(" ", "") == 'cfg(feature="std-mutex")' for a in attrs)
            if self.at("let"):
                self.next(); pat = self.pattern()
                if self.opt(":"): self.type_()
                init = None
                if self.opt("="): init = self.expr()
                self.eat(";")
                if not skip: stmts.append(("let", pat, init))
                continue
            e = self.expr(stmt=True)
            if self.opt(";"):
                if not skip: stmts.append(("expr", e))
            elif self.at("}"):
                if not skip: tail = e
            else:
                if e[0] not in ("if", "match", "block", "while", "for", "loop"):
                    raise SyntaxError(f"missing ; after {e[0]} before {self.peek()!r}")
                if not skip: stmts.append(("expr", e))
        self.eat("}")
        return ("block", stmts, tail)

    def type_(self):
        """skip a type, return its text"""
        start = self.i; d = 0
        while True:
            x = self.peek()
            if x is None: break
            if x in ("<", "(", "["): d += 1
            elif x in (">", ")", "]"):
                if d == 0: break
                d -= 1
            elif x in (",", ";", "=", "{", "where") and d == 0: break
            self.i += 1
        return "".join(self.t[start:self.i])

    # ---- expressions
    BIN = {"||": 1, "&&": 2, "==": 3, "!=": 3, "<": 3, ">": 3, "<=": 3, ">=": 3, "+": 5, "-": 5, "*": 6, "/": 6, "%": 6}
    def expr(self, stmt=False, nostruct=False):
        lhs = self.binary(0, nostruct)
        if self.peek() in ("=", "+=", "-="):
            op = self.next(); rhs = self.expr(nostruct=nostruct)
            return ("assign", op, lhs, rhs)
        return lhs
    def binary(self, minp, nostruct):
        lhs = self.unary(nostruct)
        # a block-like expression in statement position ends the expression
        while True:
            op = self.peek()
            p = self.BIN.get(op)
            if p is None or p < minp: return lhs
            if lhs[0] in ("if", "match", "block", "while", "for", "loop") and op in ("*", "&&", "-", "||"): return lhs
            self.next()
            rhs = self.binary(p + 1, nostruct)
            lhs = ("binop", op, lhs, rhs)
    def unary(self, nostruct):
        x = self.peek()
        if x in ("!", "-", "*"):
            self.next(); return ("unop", x, self.unary(nostruct))
        if x == "&":
            self.next(); self.opt("mut"); return ("ref", self.unary(nostruct))
        if x == "&&":
            self.next(); self.opt("mut"); return ("ref", ("ref", self.unary(nostruct)))
        return self.postfix(self.primary(nostruct), nostruct)
    def args(self):
        self.eat("("); a = []
        while not self.at(")"):
            a.append(self.expr()); self.opt(",")
        self.eat(")"); return a
    def postfix(self, e, nostruct):
        while True:
            if self.at("."):
                self.next(); name = self.next()
                if self.at("::"):
                    self.next(); self.skip_angles()
                if self.at("("): e = ("mcall", e, name, self.args())
                else: e = ("field", e, name)
            elif self.at("(") and e[0] in ("path", "call"):
                e = ("call", e, self.args())
            elif self.at("?"):
                self.next(); e = ("try", e)
            elif self.at("as"):
                self.next(); self.type_(); e = ("cast", e)
            else: return e
    def primary(self, nostruct):
        x = self.peek()
        if x == "(":
            self.next()
            if self.opt(")"): return ("unit",)
            e = self.expr()
            if self.at(","):
                es = [e]
                while self.opt(","):
                    if self.at(")"): break
                    es.append(self.expr())
                self.eat(")"); return ("tuple", es)
            self.eat(")"); return ("paren", e)
        if x == "{": return self.block()
        if x == "unsafe":
            self.next(); return self.block()
        if x == "if": return self.if_()
        if x == "match":
            self.next(); scrut = self.expr(nostruct=True); self.eat("{"); arms = []
            while not self.at("}"):
                self.skip_attrs()
                pat = self.pattern()
                while self.opt("|"): pat = ("or", pat, self.pattern())
                self.eat("=>")
                body = self.expr(stmt=True)
                self.opt(",")
                arms.append((pat, body))
            self.eat("}"); return ("match", scrut, arms)
        if x == "while":
            self.next()
            if self.opt("let"):
                pat = self.pattern(); self.eat("="); e = self.expr(nostruct=True)
                return ("while", ("let", pat, e), self.block())
            return ("while", self.expr(nostruct=True), self.block())
        if x == "for":
            self.next(); pat = self.pattern(); self.eat("in"); it = self.expr(nostruct=True)
            return ("for", pat, it, self.block())
        if x == "loop":
            self.next(); return ("loop", self.block())
        if x == "return":
            self.next()
            if self.peek() in (";", "}", ","): return ("return", None)
            return ("return", self.expr())
        if x == "continue": self.next(); return ("continue",)
        if x == "break": self.next(); return ("break",)
        if x is not None and (re.match(r"\d", x) or x in ("true", "false") or x[0] in "\"'"):
            self.next(); return ("lit", x)
        if x == "<":                                     # qualified path `<T as X>::f`
            self.skip_angles()
            path = "<>"
        else:
            if not re.match(r"[A-Za-z_$]", x or ""): raise SyntaxError(f"unexpected token {x!r} at {' '.join(self.t[max(0,self.i-8):self.i+8])}")
            path = self.next()
        while self.at("::"):
            self.next()
            if self.at("<"): self.skip_angles(); path += "::<>"
            else: path += "::" + self.next()
        if self.at("!"):                                 # macro call
            self.next()
            if self.at("("): toks = self.skip_balanced("(", ")")
            elif self.at("["): toks = self.skip_balanced("[", "]")
            else: toks = self.skip_balanced("{", "}")
            return ("macro", path, toks)
        if self.at("{") and not nostruct and path.split("::")[0][0].isupper():
            save = self.i
            try:
                self.eat("{"); fields = []
                while not self.at("}"):
                    name = self.next()
                    if self.opt(":"): val = self.expr()
                    else: val = ("path", name)
                    fields.append((name, val)); self.opt(",")
                self.eat("}")
                return ("struct", path, fields)
            except SyntaxError:
                self.i = save
                self.skip_balanced("{", "}")
                return ("struct", path)
        return ("path", path)
    def if_(self):
        self.eat("if")
        if self.opt("let"):
            pat = self.pattern(); self.eat("="); c = ("let", pat, self.expr(nostruct=True))
        else: c = self.expr(nostruct=True)
        th = self.block(); el = None
        if self.opt("else"):
            el = self.if_() if self.at("if") else self.block()
        return ("if", c, th, el)

# ----------------------------------------------------------------------------------------- finding functions
def find_functions(src, fname):
    """-> list of dict(ctx, name, params (text), ret (text), body (AST), file)"""
    toks = tokenize(src)
    res, stack, i, pending = [], [], 0, None
    n = len(toks)
    skip_next_item = False
    while i < n:
        x = toks[i]
        if x == "#" and toks[i+1] == "[":
            j = i + 2; d = 1
            while d:
                if toks[j] == "[": d += 1
                elif toks[j] == "]": d -= 1
                j += 1
            attr = "".join(toks[i+2:j-1])
            if attr == 'cfg(feature="std-mutex")': skip_next_item = True
            i = j; continue
        if x == "impl":
            j = i
            while toks[j] != "{": j += 1
            hdr = toks[i+1:j]
            # drop generics
            def clean(ts):
                out, d = [], 0
                for t in ts:
                    if t == "<": d += 1
                    elif t == ">": d -= 1
                    elif d == 0: out.append(t)
                return out
            h = clean(hdr)
            if "where" in h: h = h[:h.index("where")]
            if "for" in h:
                k = h.index("for"); ctx = h[k-1] + "_" + h[k+1]
            else: ctx = h[0]
            pending = ctx; i = j; continue
        if x == "macro_rules":
            pending = toks[i+2]
            j = i
            while toks[j] != "{": j += 1
            i = j; continue
        if x == "fn":
            name = toks[i+1]
            j = i + 2
            if toks[j] == "<":
                d = 0
                while True:
                    if toks[j] == "<": d += 1
                    elif toks[j] == ">":
                        d -= 1
                        if d == 0: break
                    j += 1
                j += 1
            assert toks[j] == "(", (name, toks[j])
            d = 0; k = j
            while True:
                if toks[k] == "(": d += 1
                elif toks[k] == ")":
                    d -= 1
                    if d == 0: break
                k += 1
            params = toks[j+1:k]
            k += 1
            ret = []
            while toks[k] not in ("{", ";"):
                ret.append(toks[k]); k += 1
            if toks[k] == ";": i = k + 1; continue
            # body
            d = 0; e = k
            while True:
                if toks[e] == "{": d += 1
                elif toks[e] == "}":
                    d -= 1
                    if d == 0: break
                e += 1
            body_toks = toks[k:e+1]
            ctx = next((c for c in reversed(stack) if c), "top")
            if not skip_next_item:
                res.append(dict(ctx=ctx, name=name, params=params, ret="".join(ret[1:]) if ret and ret[0] == "->" else "",
                                toks=body_toks, file=fname))
            skip_next_item = False
            i = e + 1; continue
        if x == "{":
            stack.append(pending); pending = None
        elif x == "}":
            if stack: stack.pop()
        elif x == ";":
            skip_next_item = False
        i += 1
    return res

# ------------------------------------------------------------------------------------------------ printing
def show(e):
    """canonical source text of an expression (for the effect tables); `this` is `self`"""
    k = e[0]
    if k == "path": return "self" if e[1] == "this" else e[1]
    if k == "lit": return e[1]
    if k == "unit": return "()"
    if k == "field": return show(e[1]) + "." + e[2]
    if k == "mcall": return show(e[1]) + "." + e[2] + "(" + ",".join(show(a) for a in e[3]) + ")"
    if k == "call": return show(e[1]) + "(" + ",".join(show(a) for a in e[2]) + ")"
    if k == "unop": return e[1] + show(e[2])
    if k == "ref": return show(e[1])
    if k == "paren": return show(e[1])
    if k == "binop": return show(e[2]) + e[1] + show(e[3])
    if k == "assign": return show(e[2]) + e[1] + show(e[3])
    if k == "block":
        if not e[1] and e[2] is not None: return show(e[2])
        return "{" + ";".join(show_stmt(s) for s in e[1]) + (";" + show(e[2]) if e[2] else "") + "}"
    if k == "struct": return e[1] + "{..}"
    if k == "macro": return e[1] + "!(..)"
    if k == "try": return show(e[1]) + "?"
    if k == "cast": return show(e[1]) + " as _"
    if k == "tuple": return "(" + ",".join(show(a) for a in e[1]) + ")"
    if k == "return": return "return " + (show(e[1]) if e[1] else "")
    if k == "if": return "if " + (show(e[1]) if e[1][0] != "let" else "let.." ) + "{..}"
    return "<" + k + ">"
def show_stmt(s):
    if s[0] == "let": return "let " + str(s[1]) + "=" + (show(s[2]) if s[2] else "")
    return show(s[1])

# ------------------------------------------------------------------------------------------- effect tables
# expression text  ->  (kind, Lean constructor).  kinds: eff (statement), askB (Bool), askM (Msg)
SIG = r"(?:sig|self\.sig)"
EFFECTS = [
    (r"^(\w+)\.send\((.*)\)$",                 "sigSend"),       # special: first.send(V)
    (r"^(\w+)\.terminate\(\)$",                "sigTerminate"),
    (r"^data\.assume_init_drop\(\)$",          "eff", ".dropData"),
    (r"^self\.drop_local_data\(\)$",           "eff", ".dropLocal"),
    (r"^\*data=Some\(d\.assume_init_read\(\)\)$", "eff", ".giveBack"),
    (r"^self\.sig\.set_ptr\(KanalPtr::new_unchecked\(self\.data\.as_mut_ptr\(\)\)\)$", "eff", ".setPtr"),
    (r"^self\.sig\.register_waker\(cx\.waker\(\)\)$", "eff", ".registerWaker"),
    (r"^self\.sig=Signal::new_async\(\)$",     "eff", ".rearmSig"),
    (r"^self\.terminated=true$",               "eff", ".setTerminated"),
    (r"^vec\.reserve\((.*)\)$",                "vecReserve"),
    (r"^vec\.push\((.*)\)$",                   "vecPush"),
]
ASKB = {
    "sig.wait()": ".wait", "sig.wait_timeout(deadline)": ".waitTimeout", "sig.is_terminated()": ".isTerminated",
    "self.sig.async_blocking_wait()": ".asyncBlockingWait", "self.sig.will_wake(cx.waker())": ".willWake",
    "needs_drop::<>()": ".needsDrop", "size_of::<>()>size_of::<>()": ".sizeGtPtr",
    "Instant::now()>deadline": ".expired", "data.is_none()": ".dataIsNone",
}
ASKM = {
    "self.read_local_data()": ".readLocal",          # ReceiveFuture: the value a sender delivered
    "ret.assume_init()": ".readRet", "sig.assume_init()": ".readSigPtr",
}
# moves of the caller's own value: an effect, the value is `x.m`
OWN_DATA = {"data.take().unwrap()": ".takeData", "self.read_local_data()": ".readLocal"}
# let-initialisers outside the logical state: text -> effect (None: no effect, the binding is opaque)
LETS = {
    "MaybeUninit::new(data)": ".wrapData", "MaybeUninit::new(data.take().unwrap())": ".wrapTaken",
    "Signal::new_sync(KanalPtr::new_from(data.as_mut_ptr()))": ".newSendSig",
    "Signal::new_sync(KanalPtr::new_from(d.as_mut_ptr()))": ".newSendSig",
    "MaybeUninit::<>::uninit()": ".newRetSlot",
    "Signal::new_sync(KanalPtr::new_write_address_ptr(ret.as_mut_ptr()))": ".newRecvSig",
    "Instant::now().checked_add(duration).unwrap()": ".readClock",
    "self.get_unchecked_mut()": None,
}
OWN_SIG = {"sig", "self.sig", "sig.get_terminator()", "self.sig.get_terminator()"}
ERRV = {"Closed": ".closed", "ReceiveClosed": ".recvClosed", "SendClosed": ".sendClosed", "Timeout": ".timeout"}
FUTST = {"FutureState::Zero": ".zero", "FutureState::Waiting": ".waiting", "FutureState::Done": ".done"}
CHAN_FIELDS = {"recv_count": ("nat", "recvCount"), "send_count": ("nat", "sendCount"), "capacity": ("cap", "capacity"),
               "recv_blocking": ("bool", "recvBlocking")}
CHAN_LISTS = {"queue": ("msg", "queue"), "wait_list": ("sig", "waitList")}
LOOP_FUEL = "3"                                            # `loop { … continue … }`
WHILE_FUEL = "(c.queue.length + c.waitList.length + 1)"   # `while let Some(_) = <pop> { … }`

class Unsupported(Exception): pass

class V:
    """a lowered value: type tag, Lean term, statically known constructor (for options)"""
    def __init__(self, ty, tm, ctor=None): self.ty, self.tm, self.ctor = ty, tm, ctor
    def __repr__(self): return f"V({self.ty},{self.tm},{self.ctor})"
UNIT = V("unit", "()")

class Lower:
    def __init__(self, fn, internal_sigs):
        self.fn, self.isigs = fn, internal_sigs
        self.counter = 0
        self.is_internal = fn["ctx"] == "ChannelInternal"
        self.unknown = []
    def fresh(self, base):
        self.counter += 1; return f"{base}{self.counter}"

    # environment: dict(vars, guard (rust name of the guard variable or "@tmp" or None), gblock, st, loop)
    def env0(self):
        env = dict(vars={}, guard=None, gblock=None, st="x.st", loop=None, depth=0)
        if self.is_internal: env["guard"] = "self"; env["gblock"] = -1
        return env

    # ---- return
    def ret(self, env, v):
        """function return with value v"""
        if self.is_internal:
            return f"k c {self.plain(v)}"
        r = self.to_res(v)
        if env["guard"]: return f".unlock c (.ret {r})"
        return f".ret {r}"
    def plain(self, v):
        if v.ty == "unit": return "()"
        if isinstance(v.ty, tuple) and v.ty[0] == "opt":
            if v.ctor == "some": return f"(some {v.tm})"
            if v.ctor == "none": return "none"
        return v.tm
    def to_res(self, v):
        ty = v.ty
        if ty == "res": return v.tm
        if ty == "unit" or ty == "opaque": return ".unit"
        if ty == "bool": return f"(.bool {v.tm})"
        if ty == "nat": return f"(.num {v.tm})"
        if ty == "cap": return f"(.cap {v.tm})"
        if ty == "msg": return f"(.val {v.tm})"
        if ty == "pending": return ".pending"
        if isinstance(ty, tuple):
            if ty[0] in ("ok", "ready"):
                inner = V(ty[1], v.tm, v.ctor)
                if ty[0] == "ok" and isinstance(ty[1], tuple) and ty[1][0] == "opt":
                    if v.ctor == "some": return f"(.val {v.tm})"
                    if v.ctor == "none": return ".none"
                return self.to_res(inner)
            if ty[0] == "err": return f"(.err {v.tm})"
            if ty[0] == "opt":                      # Poll<Option<T>> of the stream
                if v.ctor == "some": return f"(.val {v.tm})"
                if v.ctor == "none": return ".streamEnd"
        raise Unsupported(f"return value {v}")

    # ---- blocks
    def block(self, b, env, k, is_fn_body=False):
        """k(env, V) for the block's value when control falls out of it"""
        _, stmts, tail = b
        env = dict(env); env["depth"] = env["depth"] + 1
        bid = env["depth"]
        def end(env2, v):
            if env2["guard"] and env2["gblock"] == bid and not is_fn_body:
                env3 = dict(env2); env3["guard"] = None
                return f".unlock c ({k(env3, v)})"
            return k(env2, v)
        def seq(i, env1):
            if i == len(stmts):
                if tail is None: return end(env1, UNIT)
                return self.full(tail, env1, end)
            return self.stmt(stmts[i], env1, bid, lambda env2: seq(i + 1, env2))
        return seq(0, env)

    def stmt(self, s, env, bid, k):
        if s[0] == "let":
            _, pat, init = s
            if init is None: return k(env)
            name = pat[1] if pat[0] == "id" else None
            txt = show(init)
            if txt in LETS:
                env2 = dict(env); env2["vars"] = dict(env["vars"])
                if name: env2["vars"][name] = V("sig", "x.me") if LETS[txt] in (".newSendSig", ".newRecvSig") else V("opaque", "()")
                if LETS[txt] is None: return k(env2)
                return f".eff {LETS[txt]} ({k(env2)})"
            def bind(env1, v):
                env2 = dict(env1); env2["vars"] = dict(env1["vars"])
                if v.ty == "guard":
                    env2["guard"] = name; env2["gblock"] = bid
                    return k(env2)
                if name is None: raise Unsupported("let pattern " + str(pat))
                if v.ty in ("unit", "opaque"):
                    env2["vars"][name] = v; return k(env2)
                ln = "v_" + name
                env2["vars"][name] = V(v.ty, ln)
                return f"let {ln} := {self.plain(v)}; " + self.release_tmp(env2, lambda e: k(e))
            return self.expr(init, env, bind)
        return self.full(s[1], env, lambda env1, v: k(env1))

    def release_tmp(self, env, k):
        if env["guard"] == "@tmp":
            env2 = dict(env); env2["guard"] = None
            return f".unlock c ({k(env2)})"
        return k(env)

    def full(self, e, env, k):
        """a full expression: temporaries (a temporary guard) die at its end"""
        def k2(env1, v):
            if env1["guard"] == "@tmp" and env.get("guard") != "@tmp":
                if v.ty in ("nat", "bool", "cap", "msg") and "c." in v.tm:
                    ln = self.fresh("t")
                    env2 = dict(env1); env2["guard"] = None
                    return f"let {ln} := {v.tm}; .unlock c ({k(env2, V(v.ty, ln, v.ctor))})"
                env2 = dict(env1); env2["guard"] = None
                return f".unlock c ({k(env2, v)})"
            return k(env1, v)
        return self.expr(e, env, k2)

    # ---- guard access
    def is_guard(self, e, env):
        return e[0] == "path" and env["guard"] not in (None, "@tmp") and e[1] == env["guard"]

    # ---- expressions: k(env, V)
    def expr(self, e, env, k):
        kind = e[0]
        txt = show(e)
        if kind in ("paren",): return self.expr(e[1], env, k)
        if kind == "ref":
            if self.own_sig(txt, env): return k(env, V("sig", "x.me"))
            return self.expr(e[1], env, k)
        if kind == "unit": return k(env, UNIT)
        if kind == "block": return self.block(e, env, k)
        if kind == "lit":
            if e[1] in ("true", "false"): return k(env, V("bool", e[1]))
            return k(env, V("nat", re.sub(r"[a-z_].*$", "", e[1])))
        if self.own_sig(txt, env): return k(env, V("sig", "x.me"))
        if txt in ASKB:
            b = self.fresh("b")
            return f".askB {ASKB[txt]} fun {b} => " + k(env, V("bool", b))
        if txt in OWN_DATA and (txt != "self.read_local_data()" or "SendFuture" in self.fn["ctx"]):
            return f".eff {OWN_DATA[txt]} ({k(env, V('msg', 'x.m'))})"
        if txt in ASKM:
            m = self.fresh("m")
            return f".askM {ASKM[txt]} fun {m} => " + k(env, V("msg", m))
        if txt in FUTST: return k(env, V("futst", FUTST[txt]))
        if kind == "path":
            name = e[1]
            if name == "this": name = "self"
            if name in env["vars"]: return k(env, env["vars"][name])
            if name == "data": return k(env, V("msg", "x.m"))
            if name == "None": return k(env, V(("opt", "?"), "none", "none"))
            if name == "usize::MAX": return k(env, V("cap", "none"))
            if name == "Poll::Pending": return k(env, V("pending", ""))
            if name.split("::")[-1] in ERRV and "::" in name: return k(env, V("errv", ERRV[name.split("::")[-1]]))
            if self.is_guard(e, env): return k(env, V("guardref", "c"))
            if name in ("self", "cx", "duration", "deadline"): return k(env, V("opaque", "()"))
            return self.unk(txt, env, k)
        if kind == "struct": return k(env, V("opaque", "()"))
        if kind == "macro":
            if e[1] == "panic": return ".ret .panic" if not self.is_internal else self.unk(txt, env, k)
            return self.unk(txt, env, k)
        if kind == "return":
            if e[1] is None: return self.ret(env, UNIT)
            return self.expr(e[1], env, lambda env1, v: self.ret(env1, v))
        if kind == "continue":
            if env["loop"] is None: raise Unsupported("continue outside loop")
            return env["loop"](env)
        if kind == "if": return self.if_(e, env, k)
        if kind == "match": return self.match(e, env, k)
        if kind == "while": return self.while_(e, env, k)
        if kind == "for": return self.for_(e, env, k)
        if kind == "loop": return self.loop(e, env, k)
        if kind == "unop":
            if e[1] == "!":
                return self.expr(e[2], env, lambda env1, v: k(env1, V("bool", f"(!{v.tm})")))
            if e[1] == "*": return self.expr(e[2], env, k)
        if kind == "binop": return self.binop(e, env, k)
        if kind == "assign": return self.assign(e, env, k)
        if kind == "field": return self.field(e, env, k)
        if kind == "call": return self.call(e, env, k)
        if kind == "mcall": return self.mcall(e, env, k)
        return self.unk(txt, env, k)

    def own_sig(self, txt, env):
        """the caller's own signal (a local `sig` of a blocking call, the future's `self.sig`)"""
        return (not self.is_internal) and txt in OWN_SIG and txt not in env["vars"]

    def unk(self, txt, env, k):
        self.unknown.append(txt)
        t = txt.replace('"', "'")
        return f'.eff (.unknown "{t}") ({k(env, V("opaque", "()"))})'

    def guard_recv(self, e, env, k):
        """e is an expression that should denote the guard (named variable or a temporary from acquire_internal);
        calls k(env) with `c` bound"""
        if self.is_guard(e, env): return k(env)
        if e[0] == "call" and show(e[1]) in ("acquire_internal",):
            if env["guard"]: raise Unsupported("nested lock acquisition")
            env2 = dict(env); env2["guard"] = "@tmp"
            return ".lock fun c => " + k(env2)
        return None

    def field(self, e, env, k):
        _, recv, name = e
        if name in CHAN_FIELDS:
            r = self.guard_recv(recv, env, lambda env1: k(env1, V(CHAN_FIELDS[name][0], "c." + CHAN_FIELDS[name][1])))
            if r is not None: return r
        txt = show(e)
        if txt == "self.state": return k(env, V("futst", env["st"]))
        if txt == "self.is_stream": return k(env, V("bool", "x.isStream"))
        if txt == "self.terminated": return k(env, V("bool", "x.terminated"))
        return self.unk(txt, env, k)

    def binop(self, e, env, k):
        _, op, a, b = e
        if op in ("&&", "||"):
            if self.pure(b):
                return self.expr(a, env, lambda e1, va: self.expr(b, e1, lambda e2, vb: k(e2, V("bool", f"({va.tm} {op} {vb.tm})"))))
            # short circuit with an effectful right operand
            def ka(e1, va):
                rhs = self.expr(b, e1, k)
                short = k(e1, V("bool", "false" if op == "&&" else "true"))
                return f"(if {va.tm} then {rhs} else {short})" if op == "&&" else f"(if {va.tm} then {short} else {rhs})"
            return self.expr(a, env, ka)
        def kb(e2, va, vb):
            if va.ty == "cap" or vb.ty == "cap":
                if op == "<" and vb.ty == "cap": return k(e2, V("bool", f"(Cap.lenLt {va.tm} {vb.tm})"))
                if op == "==" and va.ty == "cap": return k(e2, V("bool", f"(Cap.eqLen {va.tm} {vb.tm})"))
                if op == "!=" and vb.tm == "none": return k(e2, V("bool", f"(Cap.isBounded {va.tm})"))
                raise Unsupported("capacity comparison " + show(e))
            if va.ty == "futst" and op == "==": return k(e2, V("bool", f"({va.tm} == {vb.tm})"))
            if op in ("==", "!="): return k(e2, V("bool", f"({va.tm} {op} {vb.tm})"))
            if op in ("<", ">", "<=", ">="): return k(e2, V("bool", f"(decide ({va.tm} {op} {vb.tm}))"))
            if op in ("+", "-", "*"): return k(e2, V("nat", f"({va.tm} {op} {vb.tm})"))
            raise Unsupported("operator " + op)
        return self.expr(a, env, lambda e1, va: self.expr(b, e1, lambda e2, vb: kb(e2, va, vb)))

    def pure(self, e):
        """no lock, no effect, no CPS call inside"""
        txt = show(e)
        if txt in ASKB or txt in ASKM or txt in OWN_DATA: return False
        k = e[0]
        if k in ("path", "lit", "unit"): return True
        if k in ("paren", "ref"): return self.pure(e[1])
        if k == "unop": return self.pure(e[2])
        if k == "binop": return self.pure(e[2]) and self.pure(e[3])
        if k == "field": return self.pure(e[1])
        if k == "mcall":
            if e[2] in ("len", "is_empty", "is_waiting", "is_done", "eq") and self.pure(e[1]): return all(self.pure(a) for a in e[3])
            return False
        return False

    def assign(self, e, env, k):
        _, op, lhs, rhs = e
        txt = show(e)
        for ent in EFFECTS:
            m = re.match(ent[0], txt)
            if m and ent[1] == "eff": return f".eff {ent[2]} ({k(env, UNIT)})"
        if lhs[0] == "field" and lhs[2] in CHAN_FIELDS and self.is_guard(lhs[1], env):
            f = CHAN_FIELDS[lhs[2]][1]
            def kr(env1, v):
                val = v.tm if op == "=" else f"c.{f} {op[0]} {v.tm}"
                return f"let c := {{ c with {f} := {val} }}; " + k(env1, UNIT)
            return self.expr(rhs, env, kr)
        if show(lhs) == "self.state" and show(rhs) in FUTST:
            env2 = dict(env); env2["st"] = FUTST[show(rhs)]
            return f".eff (.setState {FUTST[show(rhs)]}) ({k(env2, UNIT)})"
        return self.unk(txt, env, k)

    def call(self, e, env, k):
        _, f, args = e
        fn = show(f)
        if fn in ("acquire_internal",):
            if env["guard"]: raise Unsupported("nested lock acquisition")
            env2 = dict(env); env2["guard"] = "@tmp"
            return ".lock fun c => " + k(env2, V("guard", "c"))
        if fn == "try_acquire_internal":
            if env["guard"]: raise Unsupported("nested lock acquisition")
            oc = self.fresh("oc")
            return f".tryLock fun {oc} => " + k(env, V(("opt", "guard"), oc))
        if fn == "drop":
            a = args[0]
            if self.is_guard(a, env):
                env2 = dict(env); env2["guard"] = None
                return f".unlock c ({k(env2, UNIT)})"
            return k(env, UNIT)
        if fn in ("Some", "Ok", "Err", "Poll::Ready"):
            def kk(env1, v):
                if fn == "Some": return k(env1, V(("opt", v.ty), v.tm, "some"))
                if fn == "Ok": return k(env1, V(("ok", v.ty), v.tm, v.ctor))
                if fn == "Err":
                    if v.ty != "errv": raise Unsupported("Err of " + str(v))
                    return k(env1, V(("err",), v.tm))
                return k(env1, V(("ready", v.ty), v.tm, v.ctor) if v.ty != "pending" else v)
            return self.expr(args[0], env, kk)
        if fn == "CloseError": return k(env, V("errv", ".closeErr"))
        if fn in ("transmute",): return k(env, V("opaque", "()"))
        return self.unk(show(e), env, k)

    def mcall(self, e, env, k):
        _, recv, name, args = e
        txt = show(e)
        # effects by text
        for ent in EFFECTS:
            m = re.match(ent[0], txt)
            if not m: continue
            if ent[1] == "eff": return f".eff {ent[2]} ({k(env, UNIT)})"
            if ent[1] == "sigSend":
                p = env["vars"].get(m.group(1))
                if p is None or p.ty != "sig": continue
                return self.expr(args[0], env, lambda e1, v: f".eff (.sigSend {p.tm} {v.tm}) ({k(e1, UNIT)})")
            if ent[1] == "sigTerminate":
                p = env["vars"].get(m.group(1))
                if p is None or p.ty != "sig": continue
                return f".eff (.sigTerminate {p.tm}) ({k(env, UNIT)})"
            if ent[1] == "vecReserve":
                return self.expr(args[0], env, lambda e1, v: f".eff (.vecReserve {v.tm}) ({k(e1, UNIT)})")
            if ent[1] == "vecPush":
                return self.expr(args[0], env, lambda e1, v: f".eff (.vecPush {v.tm}) ({k(e1, UNIT)})")
        if name == "recv" and recv[0] == "path" and env["vars"].get(recv[1]) is not None and env["vars"][recv[1]].ty == "sig":
            m = self.fresh("m")
            return f".askM (.sigRecv {env['vars'][recv[1]].tm}) fun {m} => " + k(env, V("msg", m))
        if txt == "vec.len()": return k(env, V("nat", "x.vlen"))
        if txt == "vec.capacity()": return k(env, V("nat", "x.vcap"))
        if txt == "self.state.is_waiting()": return k(env, V("bool", f"({env['st']} == .waiting)"))
        if txt == "self.state.is_done()": return k(env, V("bool", f"({env['st']} == .done)"))
        if txt == "self.sig.poll()":
            r = self.fresh("r")
            return f".askP fun {r} => " + k(env, V("pollb", r))
        if name == "eq" and len(args) == 1:
            return self.expr(recv, env, lambda e1, va: self.expr(args[0], e1, lambda e2, vb: k(e2, V("bool", f"({va.tm} == {vb.tm})"))))
        # operations on the lists of the logical state
        if recv[0] == "field" and recv[2] in CHAN_LISTS:
            ety, fld = CHAN_LISTS[recv[2]]
            def on_list(env1):
                if name == "len": return k(env1, V("nat", f"c.{fld}.length"))
                if name == "is_empty": return k(env1, V("bool", f"c.{fld}.isEmpty"))
                if name == "clear": return f"let c := {{ c with {fld} := [] }}; " + k(env1, UNIT)
                if name == "push_back":
                    return self.expr(args[0], env1, lambda e2, v: f"let c := {{ c with {fld} := c.{fld} ++ [{v.tm}] }}; " + k(e2, UNIT))
                if name == "pop_front":
                    h, t = self.fresh("h"), self.fresh("t")
                    some = f"let c := {{ c with {fld} := {t} }}; " + k(env1, V(("opt", ety), h, "some"))
                    none = k(env1, V(("opt", ety), "none", "none"))
                    return f"(match c.{fld} with | {h} :: {t} => {some} | [] => {none})"
                if name == "remove":
                    return self.expr(args[0], env1, lambda e2, v: f"let c := {{ c with {fld} := c.{fld}.eraseIdx {v.tm} }}; " + k(e2, V("opaque", "()")))
                if name == "iter": return k(env1, V(("list", ety), f"c.{fld}"))
                raise Unsupported("list method " + name)
            r = self.guard_recv(recv[1], env, on_list)
            if r is not None: return r
        if name == "enumerate" and recv[0] == "mcall":
            return self.expr(recv, env, lambda e1, v: k(e1, V(("list", ("pair", v.ty[1], "nat")), f"{v.tm}.zipIdx")))
        # methods of ChannelInternal (their translations, in continuation-passing style)
        if name in self.isigs:
            sig = self.isigs[name]
            def on_guard(env1):
                def with_args(i, env2, acc):
                    if i == len(args):
                        r = self.fresh("r")
                        a = "".join(" " + t for t in acc)
                        if sig["ret"] == "unit":
                            return f"Gen.ChannelInternal_{name} c{a} fun c _ => " + k(env2, UNIT)
                        return f"Gen.ChannelInternal_{name} c{a} fun c {r} => " + k(env2, V(sig["ret"], r))
                    return self.expr(args[i], env2, lambda e3, v: with_args(i + 1, e3, acc + [v.tm]))
                return with_args(0, env1, [])
            r = self.guard_recv(recv, env, on_guard)
            if r is not None: return r
        return self.unk(txt, env, k)

    # ---- control flow
    def cond(self, c, env, kt, kf):
        """lower a boolean condition with short-circuit structure; temporaries die at its end"""
        if c[0] == "paren": return self.cond(c[1], env, kt, kf)
        if c[0] == "unop" and c[1] == "!": return self.cond(c[2], env, kf, kt)
        if c[0] == "binop" and c[1] == "&&" and not self.pure(c):
            return self.cond(c[2], env, lambda e1: self.cond(c[3], e1, kt, kf), kf)
        if c[0] == "binop" and c[1] == "||" and not self.pure(c):
            return self.cond(c[2], env, kt, lambda e1: self.cond(c[3], e1, kt, kf))
        def kc(env1, v):
            if v.ty != "bool":
                txt = show(c); self.unknown.append("condition " + txt)
                b = self.fresh("b"); t = txt.replace('"', "'")
                v = V("bool", b)
                return f'.askB (.unknown "{t}") fun {b} => ' + kc(env1, v)
            if env1["guard"] == "@tmp" and env["guard"] != "@tmp":
                env2 = dict(env1); env2["guard"] = None
                b = self.fresh("b")
                return f"let {b} := {v.tm}; .unlock c (if {b} then {kt(env2)} else {kf(env2)})"
            return f"(if {v.tm} then {kt(env1)} else {kf(env1)})"
        return self.expr(c, env, kc)

    def pure_block(self, b):
        return b is not None and b[0] == "block" and not b[1] and b[2] is not None and self.pure(b[2])

    def if_(self, e, env, k):
        _, c, th, el = e
        if c[0] != "let" and self.pure(c) and self.pure_block(th) and self.pure_block(el):
            return self.expr(c, env, lambda e1, vc: self.expr(th[2], e1, lambda e2, va: self.expr(el[2], e2,
                lambda e3, vb: k(e3, V(va.ty, f"(if {vc.tm} then {va.tm} else {vb.tm})")))))
        kelse = (lambda env1: self.expr(el, env1, k)) if el is not None else (lambda env1: k(env1, UNIT))
        if c[0] == "let":
            _, pat, scrut = c
            return self.expr(scrut, env, lambda env1, v: self.arms(v, [(pat, th), (("wild",), None)], env1, k, kelse))
        return self.cond(c, env, lambda env1: self.expr(th, env1, k), kelse)

    def match(self, e, env, k):
        _, scrut, arms = e
        if show(scrut) == "self.future.as_mut().poll(cx)":
            # `ReceiveStream::poll_next`: run the inner future's poll, then look at its result
            r = self.fresh("r")
            return f"Act.bind (Gen.Future_ReceiveFuture_poll x) fun {r} => " + self.arms(V("pollres", r), arms, env, k, None)
        return self.expr(scrut, env, lambda env1, v: self.arms(v, arms, env1, k, None))

    def bindpat(self, pat, v, env):
        """-> (lean pattern, env') for a constructor pattern against value v"""
        env2 = dict(env); env2["vars"] = dict(env["vars"])
        return env2

    def arms(self, v, arms, env, k, kelse):
        """arms: [(pattern, body expr or None→kelse)]"""
        def body(b, env1):
            if b is None: return kelse(env1)
            return self.expr(b, env1, k)
        def bind(env1, name, val):
            env2 = dict(env1); env2["vars"] = dict(env1["vars"]); env2["vars"][name] = val; return env2
        ty = v.ty
        if isinstance(ty, tuple) and ty[0] == "opt":
            some = next(((p, b) for p, b in arms if p[0] == "ctor" and p[1] == "Some"), None)
            none = next(((p, b) for p, b in arms if (p[0] == "ctor" and p[1] == "None") or p[0] == "wild"), None)
            def some_body(env1, inner_tm):
                p = some[0][2][0]
                if ty[1] == "guard":
                    if p[0] != "id": raise Unsupported("guard pattern")
                    env2 = dict(env1); env2["guard"] = p[1]; env2["gblock"] = env1["depth"] + 1
                    return body(some[1], env2)
                if p[0] == "id": return body(some[1], bind(env1, p[1], V(ty[1], inner_tm)))
                if p[0] == "wild": return body(some[1], env1)
                raise Unsupported("nested pattern")
            if v.ctor == "some": return some_body(env, v.tm) if some else body(none[1], env)
            if v.ctor == "none": return body(none[1], env)
            if ty[1] == "guard":
                return f"(match {v.tm} with | some c => {some_body(env, 'c')} | none => {body(none[1], env)})"
            p = some[0][2][0]
            ln = ("v_" + p[1]) if p[0] == "id" else "_"
            return f"(match {v.tm} with | some {ln} => {some_body(env, ln)} | none => {body(none[1], env)})"
        if ty == "futst":
            out = f"(match {v.tm} with"
            for p, b in arms:
                if p[0] == "wild": out += f" | _ => {body(b, env)}"
                else: out += f" | {FUTST[p[1]]} => {body(b, env)}"
            return out + ")"
        if ty == "pollres":
            ready = next((p, b) for p, b in arms if p[0] == "ctor" and p[1] == "Poll::Ready")
            pend = next((p, b) for p, b in arms if p[0] == "ctor" and p[1] == "Poll::Pending")
            nm = ready[0][2][0][1]
            return (f"(match {v.tm} with | .pending => {body(pend[1], env)}"
                    f" | _ => {body(ready[1], bind(env, nm, V('resres', v.tm)))})")
        if ty == "resres":
            ok = next((p, b) for p, b in arms if p[0] == "ctor" and p[1] == "Ok")
            er = next((p, b) for p, b in arms if p[0] == "ctor" and p[1] == "Err")
            d = ok[0][2][0][1]
            return (f"(match {v.tm} with | .val v_{d} => {body(ok[1], bind(env, d, V('msg', 'v_' + d)))}"
                    f" | .err _ => {body(er[1], env)} | _ => .ret {v.tm})")
        if ty == "pollb":
            ready = next((p, b) for p, b in arms if p[0] == "ctor" and p[1] == "Poll::Ready")
            pend = next((p, b) for p, b in arms if p[0] == "ctor" and p[1] == "Poll::Pending")
            nm = ready[0][2][0][1]
            return (f"(match {v.tm} with | some v_{nm} => {body(ready[1], bind(env, nm, V('bool', 'v_' + nm)))}"
                    f" | none => {body(pend[1], env)})")
        raise Unsupported(f"match on {v}")

    def while_(self, e, env, k):
        _, c, blk = e
        if c[0] != "let" or not env["guard"] or env["guard"] == "@tmp": raise Unsupported("while loop shape")
        _, pat, scrut = c
        def inner(env1):
            env2 = dict(env1); env2["loop"] = None
            step = lambda env3, v: "continue_ c"
            return self.expr(scrut, env2, lambda env3, v: self.arms(v, [(pat, blk), (("wild",), None)], env3, step, lambda env4: k(env4, UNIT)))
        return f"Act.loopN {WHILE_FUEL} (fun c continue_ => {inner(env)}) c"

    def for_(self, e, env, k):
        _, pat, it, blk = e
        def ki(env1, v):
            if not (isinstance(v.ty, tuple) and v.ty[0] == "list"): raise Unsupported("for over " + str(v))
            env2 = dict(env1); env2["vars"] = dict(env1["vars"])
            ety = v.ty[1]
            if pat[0] == "id":
                binder = "v_" + pat[1]; env2["vars"][pat[1]] = V(ety, binder); pre = ""
            elif pat[0] == "tuple" and isinstance(ety, tuple) and ety[0] == "pair":
                # Rust's enumerate yields (index, item); zipIdx yields (item, index)
                binder = self.fresh("p")
                i, x = pat[1][0][1], pat[1][1][1]
                env2["vars"][i] = V("nat", f"{binder}.2"); env2["vars"][x] = V(ety[1], f"{binder}.1"); pre = ""
            else: raise Unsupported("for pattern")
            marker = "next_"
            def fall(env3, v3):
                return marker
            body = self.block(blk, env2, fall)
            return f"Act.forEach {v.tm} (fun {binder} {marker} => {pre}{body}) ({k(env1, UNIT)})"
        return self.expr(it, env, ki)

    def loop(self, e, env, k):
        _, blk = e
        if env["guard"]: raise Unsupported("loop while holding the guard")
        def inner():
            env2 = dict(env); env2["st"] = "st"
            env2["loop"] = lambda env3: f"continue_ {env3['st']}"
            return self.block(blk, env2, lambda env3, v: f"continue_ {env3['st']}")
        return f"Act.loopN {LOOP_FUEL} (fun st continue_ => {inner()}) {env['st']}"

    # ---- whole function
    def run(self):
        ast = P(self.fn["toks"]).block()
        env = self.env0()
        if self.is_internal:
            # parameters other than self
            ps = " ".join(self.fn["params"])
            names = re.findall(r"(\w+)\s*:\s*(?:&\s*)?(?:Signal|SignalTerminator)", ps)
            for nm in names: env["vars"][nm] = V("sig", "v_" + nm)
            self.params = names
            return self.block(ast, env, lambda env1, v: f"k c {self.plain(v)}", is_fn_body=True)
        self.params = []
        return self.block(ast, env, lambda env1, v: self.ret(env1, v), is_fn_body=True)

def lower_new(fn):
    """`ChannelInternal::new(bounded, capacity)`: a pure function to `Chan` (straight-line code, one `if` that assigns a local)"""
    ast = P(fn["toks"]).block()
    env = {"bounded": ("bool", "bounded"), "capacity": ("nat", "capacity")}
    def val(e):
        t = show(e)
        if e[0] == "lit": return ("bool", e[1]) if e[1] in ("true", "false") else ("nat", re.sub(r"[a-z_].*$", "", e[1]))
        if e[0] == "path" and e[1] in env: return env[e[1]]
        if t == "usize::MAX": return ("cap", "none")
        if e[0] == "unop" and e[1] == "!":
            ty, tm = val(e[2]); return ("bool", f"(!{tm})")
        if e[0] == "binop" and e[1] == "==":
            a, b = val(e[2]), val(e[3]); return ("bool", f"({a[1]} == {b[1]})")
        if e[0] == "if" and e[3] is not None:
            c = val(e[1]); a = val(e[2][2]); b = val(e[3][2]); return (a[0], f"(if {c[1]} then {a[1]} else {b[1]})")
        if t.startswith("VecDeque::with_capacity("): return ("list", "[]")
        raise Unsupported("constructor expression " + t)
    def cap(v): return v[1] if v[0] == "cap" else f"(some {v[1]})"
    lets = []
    for st in ast[1]:
        if st[0] == "let" and st[1][0] == "id":
            name = st[1][1]
            if st[2][0] == "struct" and len(st[2]) == 3:
                f = dict(st[2][2])
                need = {"queue", "recv_blocking", "wait_list", "recv_count", "send_count", "capacity"}
                if set(f) != need: raise Unsupported("fields of ChannelInternal: " + str(sorted(f)))
                vals = {k: val(v) for k, v in f.items()}
                rec = (f"{{ queue := {vals['queue'][1]}, recvBlocking := {vals['recv_blocking'][1]}, waitList := {vals['wait_list'][1]}, "
                       f"capacity := {cap(vals['capacity'])}, recvCount := {vals['recv_count'][1]}, sendCount := {vals['send_count'][1]} }}")
                env[name] = ("chan", rec)
            else:
                env[name] = val(st[2])
        elif st[0] == "expr" and st[1][0] == "if" and st[1][3] is None:
            # `if c { x = v; }`: conditional assignment of a local
            c = val(st[1][1])
            for a in st[1][2][1]:
                if a[0] == "expr" and a[1][0] == "assign" and a[1][1] == "=" and a[1][2][0] == "path":
                    x = a[1][2][1]; new = val(a[1][3]); old = env[x]
                    if new[0] == "cap" or old[0] == "cap":
                        env[x] = ("cap", f"(if {c[1]} then {cap(new)} else {cap(old)})")
                    else:
                        env[x] = (old[0], f"(if {c[1]} then {new[1]} else {old[1]})")
                else: raise Unsupported("constructor statement " + show_stmt(a))
        else: raise Unsupported("constructor statement " + show_stmt(st))
    tail = show(ast[2]) if ast[2] else ""
    m = re.match(r"Arc::new\(Mutex::from\((\w+)\)\)$", tail)
    if not m or env.get(m.group(1), ("", ""))[0] != "chan": raise Unsupported("constructor result " + tail)
    return env[m.group(1)][1]


def lean_name(fn): return f"{fn['ctx']}_{fn['name']}"

RET_TY = {"Option<SignalTerminator<T>>": ("opt", "sig"), "bool": "bool", "": "unit"}
RET_LEAN = {("opt", "sig"): "Option SigId", "bool": "Bool", "unit": "Unit"}

def pretty(term, width=110):
    """line breaks before match alternatives and `else`, indentation by parenthesis depth (Lean is column
    sensitive only in that the right-hand side of an alternative may not start left of its `|`)"""
    term = re.sub(r"\s+", " ", term)
    parts = re.split(r"( \| | else |; )", term)
    lines, line, depth = [], "  ", 0
    def d(txt):
        return txt.count("(") - txt.count(")")
    for t in parts:
        if t in (" | ", " else "):
            lines.append(line.rstrip()); line = " " * (2 + 2 * depth) + t.strip() + " "
            continue
        if t == "; ":
            line += ";"
            if len(line) > width:
                lines.append(line.rstrip()); line = " " * (4 + 2 * depth)
            else: line += " "
            continue
        line += t; depth += d(t)
    lines.append(line.rstrip())
    return "\n".join(lines)

def lean_errors(path):
    """line numbers of the errors Lean reports for the generated file"""
    import subprocess
    proj = os.path.dirname(os.path.dirname(os.path.abspath(path)))
    mod = "Kanal." + os.path.basename(path)[:-5]
    try:                                                      # `lake build` brings the imported modules up to date first
        r = subprocess.run(["lake", "build", mod], cwd=proj, capture_output=True, text=True, timeout=900)
    except Exception as ex:                                   # no Lean available: nothing to validate against
        return []
    base = os.path.basename(path)
    return [int(m.group(1)) for m in re.finditer(re.escape(base) + r":(\d+):\d+", r.stdout + r.stderr)
            if "error" in (r.stdout + r.stderr)[max(0, m.start() - 40):m.start()]]


def main():
    src_dir, out_path = sys.argv[1], sys.argv[2]
    fns = []
    for f in ("internal.rs", "lib.rs", "future.rs"):
        src = strip_verif(strip_comments(open(os.path.join(src_dir, f)).read()))
        fns += find_functions(src, f)
    internal = [f for f in fns if f["ctx"] == "ChannelInternal" and f["name"] != "new"]
    isigs = {}
    for f in internal:
        rt = RET_TY.get(f["ret"])
        if rt is None: raise SystemExit(f"rs2lean: unknown return type {f['ret']!r} of ChannelInternal::{f['name']}")
        isigs[f["name"]] = dict(ret=rt)
    api = [f for f in fns if f["ctx"] != "ChannelInternal" and f["file"] != "internal.rs"
           and (any(t in ("acquire_internal", "try_acquire_internal") for t in f["toks"]) or (f["ctx"], f["name"]) == ("Stream_ReceiveStream", "poll_next"))]
    out = ["/-", "  GENERATED by extract/rs2lean.py from /repo/src/{internal,lib,future}.rs on every run — do not edit.",
           "  One definition per function that touches the channel lock; see Kanal/Act.lean for the target language",
           "  and Kanal/TieCode.lean for the theorems that relate each definition to the hand-written model.", "-/",
           "import Kanal.Act", "", "namespace Kanal", "namespace Gen", "set_option linter.unusedVariables false", ""]
    header = out
    STUB_API, STUB_INT = '.eff (.unknown "untranslatable") (.diverge)', '.diverge'

    def render(stubbed):
        """-> (text, names, problems, line ranges of the definitions)"""
        out, names, problems, ranges = list(header), [], [], {}
        for f in internal + api:              # ChannelInternal methods first (callees before callers)
            L = Lower(f, isigs)
            nm = lean_name(f)
            try:
                body = L.run()
            except (Unsupported, SyntaxError, StopIteration, IndexError, KeyError, TypeError, AttributeError) as ex:
                problems.append(f"{nm}: {type(ex).__name__}: {ex}")
                body = None
            if nm in stubbed:
                problems.append(f"{nm}: the translation does not type-check in Lean ({stubbed[nm]})")
                body = None
            if body is None:
                L.unknown = []
                body = STUB_INT if f["ctx"] == "ChannelInternal" else STUB_API
            names.append(nm)
            start = len(out) + 1
            out.append(f"/-- `{f['ctx']}::{f['name']}` ({f['file']}) -/")
            if f["ctx"] == "ChannelInternal":
                params = getattr(L, "params", None)
                if params is None:
                    params = re.findall(r"(\w+)\s*:\s*(?:&\s*)?(?:Signal|SignalTerminator)", " ".join(f["params"]))
                ps = "".join(f" (v_{p} : SigId)" for p in params)
                out.append(f"def {nm} (c : Chan){ps} (k : Chan → {RET_LEAN[isigs[f['name']]['ret']]} → Act) : Act :=")
            else:
                out.append(f"def {nm} (x : Ctx) : Act :=")
            out += pretty(body).split("\n"); out.append("")
            ranges[nm] = (start, len(out))
            for u in L.unknown: problems.append(f"{nm}: unknown expression `{u}`")
        # the constructor of the logical state and its four call sites
        newfn = [f for f in fns if f["ctx"] == "ChannelInternal" and f["name"] == "new"]
        try:
            body = lower_new(newfn[0]) if len(newfn) == 1 else None
            if body is None: raise Unsupported("ChannelInternal::new not found exactly once")
        except (Unsupported, SyntaxError, IndexError, KeyError, TypeError) as ex:
            problems.append(f"ChannelInternal_new: {type(ex).__name__}: {ex}")
            body = "{ queue := [], recvBlocking := true, waitList := [], capacity := none, recvCount := 0, sendCount := 0 }"
        out.append("/-- `ChannelInternal::new` (internal.rs): the initial logical state -/")
        out.append("def ChannelInternal_new (bounded : Bool) (capacity : Nat) : Chan :=")
        out.append("  " + body); out.append("")
        calls = []
        for f in fns:
            if f["file"] == "lib.rs" and f["ctx"] == "top":
                toks = " ".join(f["toks"])
                for m_ in re.finditer(r"ChannelInternal :: new \( (\w+) , (\w+) \)", toks):
                    calls.append((f["name"], m_.group(1), m_.group(2)))
        out.append("/-- who calls the constructor, with which arguments -/")
        out.append("def constructorCalls : List (String × String × String) := [" + ", ".join(f'("{a}", "{b}", "{c}")' for a, b, c in calls) + "]")
        out.append("")
        # small wrappers that take no lock and have no model of their own: pinned by their token text (`TieCode.glue_ok`)
        glue = []
        for f in fns:
            if f["file"] == "internal.rs" or f["name"] == "fmt" or (f["ctx"], f["name"]) == ("Stream_ReceiveStream", "poll_next"): continue
            if any(t in ("acquire_internal", "try_acquire_internal") for t in f["toks"]): continue
            if f["ctx"] == "ChannelInternal": continue
            glue.append((f"{f['ctx']}::{f['name']}", " ".join(f["toks"]).replace('"', "'")))
        out.append("/-- the wrappers around the translated functions (conversions, constructors of handles / futures / streams, `Iterator::next`, …), as token text -/")
        out.append("def glue : List (String × String) := [")
        out.append(",\n".join(f'  ("{a}", "{b}")' for a, b in glue)); out.append("]"); out.append("")
        out.append("/-- the translated functions, in source order -/")
        out.append("def names : List String := [" + ", ".join(f'"{n}"' for n in names) + "]")
        out.append("")
        out.append("/-- what the translator could not handle (must be empty: `TieCode.translation_complete`) -/")
        out.append("def problems : List String := [" + ", ".join('"' + p.replace('"', "'").replace("\\", "/") + '"' for p in problems) + "]")
        out += ["", "end Gen", "end Kanal", ""]
        return "\n".join(out), names, problems, ranges

    text, names, problems, ranges = render({})
    old = open(out_path).read() if os.path.exists(out_path) else None
    if old != text:
        open(out_path, "w").write(text)
        # a translation Lean rejects (ill-typed: the source does something the target language has no shape for)
        # is replaced by a stub, function by function, so that the other tie theorems keep their meaning
        stubbed = {}
        for _ in range(4):
            errs = lean_errors(out_path)
            new = {nm: f"line {l}" for l in errs for nm, (a, b) in ranges.items() if a <= l <= b and nm not in stubbed}
            if not new: break
            stubbed.update(new)
            text, names, problems, ranges = render(stubbed)
            open(out_path, "w").write(text)
    print(f"rs2lean: {len(names)} functions, {len(problems)} problems -> {out_path}")
    for p in problems: print("  problem:", p)

if __name__ == "__main__":
    main()
