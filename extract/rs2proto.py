#!/usr/bin/env python3
"""rs2proto — translator for the lock-free protocol code of kanal (DESIGN §4.1c).

    rs2proto.py <src dir> <out .lean>

The functions of src/signal.rs (`poll`, `async_blocking_wait`, `wait`, `wait_timeout`, `is_terminated`, `wake`, `send`,
`send_copy`, `recv`, `terminate`), src/mutex.rs (`lock`, `lock_no_inline`, `try_lock`, `unlock`) and
src/backoff.rs::spin_cond are parsed with the parser of rs2lean.py and lowered to *protocol trees* (`Kanal/PAct.lean`):
every atomic operation is a node carrying its orderings (`load`, `store`, `cas`, `fence`), everything else that matters to
the protocol is an effect (`park`, `unpark`, writing / reading the thread-handle cell, cloning and waking the waker, the
payload access, yields and sleeps) or a question to the environment (the clock, the reported parallelism).  Control flow is
translated structurally: `for _ in 0..n` is `PAct.forN n`, `loop` / `while` are `PAct.loopN fuel` with the loop-carried
variables as state (the theorems hold for every `fuel`), early returns call the continuation.

`Kanal/TieProto.lean` proves that these trees *conform* to the protocol models: every path of the waiter functions is a
path of `SigM`'s waiter automaton, of `wake` a path of its peer automaton, of `lock`/`try_lock`/`unlock`/`spin_cond` a path
of `MutexM`'s per-thread automaton — with the orderings of the models' `Ords` read off the same trees.
"""
import re, sys, os
sys.path.insert(0, os.path.dirname(os.path.abspath(__file__)))
from extract import strip_comments, strip_verif
from rs2lean import P, find_functions, show, Unsupported, pretty, lean_errors

ORD = {"Relaxed": ".relaxed", "Acquire": ".acquire", "Release": ".release", "AcqRel": ".acqRel", "SeqCst": ".seqCst"}
CONSTS = {"UNLOCKED": "0", "TERMINATED": "1", "LOCKED": "2", "LOCKED_STARVATION": "3", "false": "0", "true": "1"}
# expression statements / let-initialisers that are protocol effects (canonical text -> constructor)
EFFECTS = {
    "backoff::yield_now_std()": ".yieldStd", "yield_now_std()": ".yieldStd",
    "backoff::yield_now()": ".yieldSpin", "yield_now()": ".yieldSpin",
    "spin_hint()": ".spinHint",
    "std::thread::park()": ".park",
    "thread.unpark()": ".unpark",
    "*waker.get()=Some(std::thread::current())": ".writeHandle",
    "*waker.get().as_ref().unwrap().clone()": ".readHandle",
    "w.clone()": ".cloneWaker",
    "w.wake()": ".wake",
    "*self.ptr.write(d)": ".ptrWrite",
    "*self.ptr.read()": ".ptrRead",
    "*self.ptr.copy(d)": ".ptrCopy",
    "self.ptr.read()": ".ptrRead", "_=self.ptr.read()": ".ptrRead",
    "self.waker=KanalWaker::Async(waker.clone())": ".storeWaker",      # register_waker: clone the task's waker into the signal
    "self.ptr=ptr": ".storePtr",                                        # set_ptr
}
ASKB = {
    "Instant::now()<until": ".beforeDeadline",
    "get_parallelism()>1": ".parGt1",
    "get_parallelism()==1": ".parEq1",
    "w.will_wake(waker)": ".stdWillWake",                              # `Waker::will_wake` of the standard library
}
WANTED = {
    "signal.rs": {"Signal": ["poll", "async_blocking_wait", "wait", "wait_timeout", "is_terminated", "wake", "send", "send_copy", "recv", "terminate",
                             "will_wake", "register_waker", "set_ptr", "assume_init", "load_and_drop", "new_async", "new_async_ptr", "new_sync"]},
    "mutex.rs": {"RawMutexLock": ["lock_no_inline"], "RawMutex_RawMutexLock": ["lock", "try_lock", "unlock"]},
    "backoff.rs": {"top": ["spin_cond"]},
}
RET = {"Poll<bool>": "Option Bool", "bool": "Bool", "": "Unit", "T": "Unit", "Self": "Unit"}
WAKER_INIT = {"KanalWaker::None": ".none", "KanalWaker::Sync(None.into())": ".sync"}


def lower_ctor(fn):
    """`Signal::new_*`: the initial word and waker kind from the struct literal"""
    ast = P(fn["toks"]).block()
    lit = ast[2]
    if ast[1] or lit is None or lit[0] != "struct" or len(lit) != 3: raise Unsupported("constructor body")
    f = dict(lit[2])
    if set(f) != {"state", "ptr", "waker"}: raise Unsupported("fields of Signal: " + str(sorted(f)))
    m = re.match(r"AtomicU8::new\((\w+)\)$", show(f["state"]))
    if not m or m.group(1) not in CONSTS: raise Unsupported("initial state " + show(f["state"]))
    wk = WAKER_INIT.get(show(f["waker"]))
    if wk is None: raise Unsupported("initial waker " + show(f["waker"]))
    return f"({CONSTS[m.group(1)]}, {wk})"


class V:
    def __init__(self, ty, tm): self.ty, self.tm = ty, tm


class LowerP:
    """continuation-passing lowering of one protocol function; `k` of the function is the Lean variable `k`"""
    def __init__(self, fn, sigs):
        self.fn, self.sigs, self.n, self.unknown = fn, sigs, 0, []
    def fresh(self, b):
        self.n += 1; return f"{b}{self.n}"

    def ret(self, env, v):
        rt = self.rt
        if rt == "Unit": return "k ()"
        if rt == "Bool": return f"k {v.tm}"
        if rt == "Option Bool":
            if v.ty == "ready": return f"k (some {v.tm})"
            if v.ty == "pending": return "k none"
        raise Unsupported(f"return {v.ty} for {rt}")

    # ---- statements
    def block(self, b, env, kfall):
        _, stmts, tail = b
        def seq(i, env1):
            if i == len(stmts):
                if tail is None: return kfall(env1, V("unit", "()"))
                return self.expr(tail, env1, kfall)
            return self.stmt(stmts[i], env1, lambda e2: seq(i + 1, e2))
        return seq(0, env)

    def stmt(self, s, env, k):
        if s[0] == "let":
            _, pat, init = s
            if init is None: return k(env)
            name = pat[1] if pat[0] in ("id", "ctor") else None
            txt = show(init)
            if txt in EFFECTS:
                return f".eff {EFFECTS[txt]} ({k(self.bind(env, name, V('opaque', '()')))})"
            def b(env1, v):
                if v.ty in ("nat", "bool") and name:
                    ln = "v_" + name
                    return f"let {ln} := {v.tm}; " + k(self.bind(env1, name, V(v.ty, ln)))
                return k(self.bind(env1, name, v) if name else env1)
            return self.expr(init, env, b)
        return self.expr(s[1], env, lambda e1, v: k(e1))

    def bind(self, env, name, v):
        env2 = dict(env); env2["vars"] = dict(env["vars"])
        if name: env2["vars"][name] = v
        return env2

    # ---- expressions
    def ordering(self, e):
        t = show(e).split("::")[-1]
        if t not in ORD: raise Unsupported("ordering " + show(e))
        return ORD[t]

    def expr(self, e, env, k):
        kind, txt = e[0], show(e)
        if kind in ("paren", "ref"): return self.expr(e[1], env, k)
        if kind == "block": return self.block(e, env, k)
        if kind == "unit": return k(env, V("unit", "()"))
        if txt in EFFECTS: return f".eff {EFFECTS[txt]} ({k(env, V('unit', '()'))})"
        if txt in ASKB:
            b = self.fresh("b"); return f".askB {ASKB[txt]} fun {b} => " + k(env, V("bool", b))
        if kind == "lit":
            if e[1] in ("true", "false"): return k(env, V("bool", e[1]))
            return k(env, V("nat", re.sub(r"[a-z_].*$", "", e[1]).replace("_", "")))
        if kind == "path":
            n = e[1]
            if n in env["vars"]: return k(env, env["vars"][n])
            if n in CONSTS: return k(env, V("nat", CONSTS[n]))
            if n == "Poll::Pending": return k(env, V("pending", ""))
            if n in ("self", "this", "until", "d"): return k(env, V("opaque", "()"))
            return self.unk(txt, env, k)
        if kind == "macro":
            if e[1] in ("unreachable", "panic"): return ".unreachable"
            return self.unk(txt, env, k)
        if kind == "return":
            if e[1] is None: return self.ret(env, V("unit", "()"))
            return self.expr(e[1], env, lambda e1, v: self.ret(e1, v))
        if kind == "continue": return env["loop"](env)
        if kind == "if": return self.if_(e, env, k)
        if kind == "match": return self.match(e, env, k)
        if kind == "for": return self.for_(e, env, k)
        if kind in ("loop", "while"): return self.loop(e, env, k)
        if kind == "closure":
            # `|| self.try_lock()`: a Bool-returning tree in continuation-passing style
            kk = self.fresh("kc")
            body = self.expr(e[2], self.with_loop(env, None), lambda e1, v: f"{kk} {v.tm}")
            return k(env, V("cond", f"(fun {kk} => {body})"))
        if kind == "unop":
            if e[1] == "!": return self.expr(e[2], env, lambda e1, v: k(e1, V("bool", f"(!{v.tm})")))
            if e[1] == "*": return self.expr(e[2], env, k)
        if kind == "binop":
            _, op, a, b = e
            def kb(e2, va, vb):
                if op in ("==", "!="): return k(e2, V("bool", f"({va.tm} {op} {vb.tm})"))
                if op in ("<", ">", "<=", ">="): return k(e2, V("bool", f"(decide ({va.tm} {op} {vb.tm}))"))
                if op == "<<": return k(e2, V("nat", f"({va.tm} <<< {vb.tm})"))
                if op in ("+", "-", "*", "/"): return k(e2, V("nat", f"({va.tm} {op} {vb.tm})"))
                raise Unsupported("operator " + op)
            return self.expr(a, env, lambda e1, va: self.expr(b, e1, lambda e2, vb: kb(e2, va, vb)))
        if kind == "assign":
            _, op, lhs, rhs = e
            if lhs[0] == "path" and lhs[1] in env["vars"]:
                name = lhs[1]; ln = "v_" + name
                def ka(e1, v):
                    val = v.tm if op == "=" else (f"({ln} <<< {v.tm})" if op == "<<=" else f"({ln} {op[0]} {v.tm})")
                    return f"let {ln} := {val}; " + k(e1, V("unit", "()"))
                return self.expr(rhs, env, ka)
            return self.unk(txt, env, k)
        if kind == "call": return self.call(e, env, k)
        if kind == "mcall": return self.mcall(e, env, k)
        if kind == "field":
            return self.unk(txt, env, k)
        return self.unk(txt, env, k)

    def unk(self, txt, env, k):
        self.unknown.append(txt)
        return f'.eff (.unknown "{txt}") ({k(env, V("opaque", "()"))})'

    def with_loop(self, env, f):
        e = dict(env); e["loop"] = f; return e

    def call(self, e, env, k):
        _, f, args = e
        fn = show(f)
        if fn == "fence": return f".fence {self.ordering(args[0])} ({k(env, V('unit', '()'))})"
        if fn in ("backoff::sleep", "sleep"): return f".eff .sleep ({k(env, V('unit', '()'))})"
        if fn == "Poll::Ready":
            return self.expr(args[0], env, lambda e1, v: k(e1, V("ready", v.tm)))
        if fn in ("Self::wake",):
            return self.expr(args[1], env, lambda e1, v: f"Gen.Signal_wake fuel wk {v.tm} fun _ => " + k(e1, V("unit", "()")))
        if fn == "spin_cond":
            return self.expr(args[0], env, lambda e1, v: f"Gen.spin_cond fuel {v.tm} fun _ => " + k(e1, V("unit", "()")))
        if fn == "cond" and env["vars"].get("cond") is not None:
            b = self.fresh("b")
            return f"cond fun {b} => " + k(env, V("bool", b))
        if fn in ("Duration::from_nanos",): return k(env, V("opaque", "()"))
        return self.unk(show(e), env, k)

    def mcall(self, e, env, k):
        _, recv, name, args = e
        r = show(recv)
        atomic = r in ("self.state", "*self.state", "self.locked")
        def word(v):            # atomics on the lock flag: false/true are 0/1
            return {"false": "0", "true": "1"}.get(v.tm, v.tm)
        if atomic and name == "load":
            v = self.fresh("v")
            return f".load {self.ordering(args[0])} fun {v} => " + k(env, V("nat", v))
        if atomic and name == "store":
            return self.expr(args[0], env, lambda e1, v: f".store {word(v)} {self.ordering(args[1])} ({k(e1, V('unit', '()'))})")
        if atomic and name == "compare_exchange":
            def kc(e2, a, b):
                r_ = self.fresh("r")
                return f".cas {word(a)} {word(b)} {self.ordering(args[2])} {self.ordering(args[3])} fun {r_} => " + k(e2, V("casres", r_))
            return self.expr(args[0], env, lambda e1, a: self.expr(args[1], e1, lambda e2, b: kc(e2, a, b)))
        if name in ("is_ok", "is_err") and not args:
            return self.expr(recv, env, lambda e1, v: k(e1, V("bool", f"{v.tm}.isNone" if name == "is_ok" else f"{v.tm}.isSome")))
        if r == "self" and name in ("try_lock", "lock_no_inline"):
            if name == "try_lock":
                b = self.fresh("b")
                return f"Gen.RawMutexLock_try_lock fuel fun {b} => " + k(env, V("bool", b))
            return f"Gen.RawMutexLock_lock_no_inline fuel fun _ => " + k(env, V("unit", "()"))
        return self.unk(show(e), env, k)

    def cond(self, c, env, kt, kf):
        if c[0] == "paren": return self.cond(c[1], env, kt, kf)
        if c[0] == "unop" and c[1] == "!": return self.cond(c[2], env, kf, kt)
        def kc(e1, v):
            if v.ty != "bool": raise Unsupported("condition " + show(c))
            return f"(if {v.tm} then {kt(e1)} else {kf(e1)})"
        return self.expr(c, env, kc)

    def if_(self, e, env, k):
        _, c, th, el = e
        kelse = (lambda e1: self.expr(el, e1, k)) if el is not None else (lambda e1: k(e1, V("unit", "()")))
        if c[0] == "let": raise Unsupported("if let")
        return self.cond(c, env, lambda e1: self.expr(th, e1, k), kelse)

    def match(self, e, env, k):
        _, scrut, arms = e
        st = show(scrut)
        if st in ("self.waker", "*self.waker"):
            out = "(match wk with"
            for pat, body in arms:
                pats = []
                def flat(p):
                    if p[0] == "or": flat(p[1]); flat(p[2])
                    else: pats.append(p)
                flat(pat)
                for p in pats:
                    nm = p[1].split("::")[-1]
                    ctor = {"Sync": ".sync", "Async": ".async", "None": ".none"}[nm]
                    env2 = env
                    if p[0] == "ctor" and p[2] and p[2][0][0] == "id":
                        env2 = self.bind(env, p[2][0][1], V("opaque", "()"))
                    out += f" | {ctor} => {self.expr(body, env2, k)}"
            return out + ")"
        def km(e1, v):
            if v.ty == "casres":
                ok = next(b for p, b in arms if p[0] == "ctor" and p[1] == "Ok")
                er = next((p, b) for p, b in arms if p[0] == "ctor" and p[1] == "Err")
                nm = er[0][2][0][1] if er[0][2] and er[0][2][0][0] == "id" else None
                ln = "v_" + nm if nm else "_"
                e_err = self.bind(e1, nm, V("nat", ln)) if nm else e1
                return f"(match {v.tm} with | none => {self.expr(ok, e1, k)} | some {ln} => {self.expr(er[1], e_err, k)})"
            raise Unsupported("match on " + v.ty)
        return self.expr(scrut, env, km)

    def assigned(self, node, acc):
        if isinstance(node, tuple):
            if node and node[0] == "assign" and node[2][0] == "path": acc.add(node[2][1])
            for x in node: self.assigned(x, acc)
        elif isinstance(node, list):
            for x in node: self.assigned(x, acc)
        return acc

    def carried(self, body, env):
        return sorted(v for v in self.assigned(body, set()) if v in env["vars"] and env["vars"][v].ty == "nat")

    def for_(self, e, env, k):
        _, pat, it, blk = e
        if not (it[0] == "binop" and it[1] == ".."): raise Unsupported("for over " + show(it))
        if self.carried(blk, env): raise Unsupported("for loop assigns an outer variable")
        def kn(e1, hi):
            body = self.block(blk, self.with_loop(e1, lambda e2: "next_ ()"), lambda e2, v: "next_ ()")
            return f"PAct.forN {hi.tm} (fun next_ => {body}) (fun _ => {k(e1, V('unit', '()'))})"
        return self.expr(it[3], env, kn)

    def loop(self, e, env, k):
        if e[0] == "loop": c, blk = None, e[1]
        else: c, blk = e[1], e[2]
        cv = self.carried(blk, env)
        if len(cv) > 1: raise Unsupported("several loop-carried variables")
        st, st0 = ("v_" + cv[0], env["vars"][cv[0]].tm) if cv else ("_u", "()")
        inner_env = self.bind(env, cv[0], V("nat", st)) if cv else env
        cont = (lambda e2: f"continue_ {'v_' + cv[0] if cv else '()'}")
        inner_env = self.with_loop(inner_env, cont)
        body = lambda e1: self.block(blk, e1, lambda e2, v: cont(e2))
        if c is None: inner = body(inner_env)
        else: inner = self.cond(c, inner_env, body, lambda e1: k(e1, V("unit", "()")))
        return f"PAct.loopN fuel (fun {st} continue_ => {inner}) {st0}"

    def run(self):
        ast = P(self.fn["toks"]).block()
        self.rt = RET.get(self.fn["ret"])
        if self.rt is None: raise Unsupported("return type " + self.fn["ret"])
        env = dict(vars={}, loop=None)
        ps = "".join(self.fn["params"])
        if "state:u8" in ps: env["vars"]["state"] = V("nat", "st")
        if re.search(r"cond\s*:\s*F", " ".join(self.fn["params"])): env["vars"]["cond"] = V("cond", "cond")
        return self.block(ast, env, lambda e1, v: self.ret(e1, v))


PTR_FNS = ["new_from", "new_owned", "new_write_address_ptr", "new_unchecked", "read", "write", "copy", "store_as_kanal_ptr"]
PTR_COND = {"size_of::<>()==0": "(n == 0)", "size_of::<>()>size_of::<>()": "(decide (n > P))", "size_of::<>()>0": "(decide (n > 0))"}
PTR_OPS = {
    "zeroed()": ".zeroed",
    "ptr::read(*self.0.get().assume_init())": ".readThrough",
    "ptr::read(*self.0.get().as_ptr() as _)": ".readInline",
    "ptr::write(*self.0.get().assume_init(),d)": ".writeThrough",
    "*self.0.get()=store_as_kanal_ptr(d)": ".storeInline",
    "forget(d)": ".forget",
    "ptr::copy_nonoverlapping(d,*self.0.get().assume_init(),1)": ".copyThrough",
    "Self(UnsafeCell::new(MaybeUninit::new(addr)))": ".wordAddr",
    "Self(UnsafeCell::new(store_as_kanal_ptr(addr)))": ".wordInline",
    "Self(UnsafeCell::new(store_as_kanal_ptr(d)))": ".wordInline",
    "Self(UnsafeCell::new(MaybeUninit::uninit()))": ".wordUninit",
    "MaybeUninit::uninit()": ".wordUninit",
    "ptr::copy_nonoverlapping(ptr,ret.as_mut_ptr() as _,1)": ".copyBytes",
    "ret": None,                                            # the value built above is returned
}


def lower_ptr(fn, unknown):
    """a function of pointer.rs as the list of pointer operations it performs, by size class (`n` = size_of::<T>(), `P` = pointer size)"""
    ast = P(fn["toks"]).block()
    def ops_expr(e):
        if e is None: return "[]"
        if e[0] == "paren": return ops_expr(e[1])
        if e[0] == "block": return ops_block(e)
        if e[0] == "macro" and e[1] in ("unreachable", "panic"): return "[.unreachable]"
        if e[0] == "if":
            c = show(e[1])
            if c not in PTR_COND:
                unknown.append("size test " + c); cond = "false"
            else: cond = PTR_COND[c]
            return f"(if {cond} then {ops_expr(e[2])} else {ops_expr(e[3])})"
        t = show(e)
        if t in PTR_OPS: return "[]" if PTR_OPS[t] is None else f"[{PTR_OPS[t]}]"
        unknown.append(t); q = t.replace('"', "'")
        return f'[.unknown "{q}"]'
    def ops_block(b):
        parts = []
        for st in b[1]:
            if st[0] == "let": parts.append(ops_expr(st[2]))
            else: parts.append(ops_expr(st[1]))
        if b[2] is not None: parts.append(ops_expr(b[2]))
        parts = [p for p in parts if p != "[]"]
        return "(" + " ++ ".join(parts) + ")" if parts else "[]"
    return ops_block(ast)


def patch_parser():
    """the protocol code uses closures `|| e`, ranges `a..b`, shifts and `const` items inside bodies"""
    import rs2lean
    rs2lean.TOK = re.compile(rs2lean.TOK.pattern.replace(r"(?P<op>::", r"(?P<op><<=|<<|::"), re.X)
    P.BIN = dict(P.BIN); P.BIN["<<"] = 4; P.BIN[".."] = 0
    old_primary = P.primary
    def primary(self, nostruct):
        if self.peek() == "||":
            self.next(); body = self.expr()
            return ("closure", [], body)
        if self.peek() == "const" or self.peek() == "static":
            raise SyntaxError("const in expression position")
        return old_primary(self, nostruct)
    P.primary = primary
    old_block = P.block
    def block(self):
        # rewrite `const NAME: ty = e;` into `let NAME = e;`, drop `static …;` items
        i, d = self.i, 0
        j = i
        while True:
            t = self.t[j]
            if t == "{": d += 1
            elif t == "}":
                d -= 1
                if d == 0: break
            elif t == "const" and d == 1 and self.t[j - 1] in ("{", ";", "}"): self.t[j] = "let"
            j += 1
        return old_block(self)
    P.block = block
    old_expr = P.expr
    def expr(self, stmt=False, nostruct=False):
        lhs = self.binary(0, nostruct)
        if self.peek() in ("=", "+=", "-=", "<<="):
            op = self.next(); rhs = self.expr(nostruct=nostruct)
            return ("assign", op, lhs, rhs)
        return lhs
    P.expr = expr


def main():
    src_dir, out_path = sys.argv[1], sys.argv[2]
    patch_parser()
    fns = []
    for f, want in WANTED.items():
        src = strip_verif(strip_comments(open(os.path.join(src_dir, f)).read()))
        for fn in find_functions(src, f):
            if fn["ctx"] in want and fn["name"] in want[fn["ctx"]]: fns.append(fn)
    order = ["new_async", "new_async_ptr", "new_sync", "will_wake", "register_waker", "set_ptr", "assume_init", "load_and_drop",
             "try_lock", "unlock", "spin_cond", "lock_no_inline", "lock", "poll", "is_terminated", "async_blocking_wait", "wait", "wait_timeout",
             "wake", "send", "send_copy", "recv", "terminate"]
    fns.sort(key=lambda f: order.index(f["name"]) if f["name"] in order else 99)
    header = ["/-", "  GENERATED by extract/rs2proto.py from /repo/src/{signal,mutex,backoff}.rs on every run — do not edit.",
              "  Protocol trees (Kanal/PAct.lean); Kanal/TieProto.lean proves them conformant to SigM / MutexM.", "-/",
              "import Kanal.PAct", "", "namespace Kanal", "namespace Gen", "set_option linter.unusedVariables false", ""]
    def name_of(f):
        if f["ctx"] == "top": return f["name"]
        return ("Signal_" if f["ctx"] == "Signal" else "RawMutexLock_") + f["name"]
    def render(stubbed):
        out, names, problems, ranges = list(header), [], [], {}
        for f in fns:
            L = LowerP(f, None); nm = name_of(f)
            if f["name"].startswith("new_"):
                try: body = lower_ctor(f)
                except (Unsupported, SyntaxError, IndexError, KeyError, TypeError) as ex:
                    problems.append(f"{nm}: {type(ex).__name__}: {ex}"); body = "(0, .none)"
                if nm in stubbed: problems.append(f"{nm}: does not type-check ({stubbed[nm]})"); body = "(0, .none)"
                names.append(nm); start = len(out) + 1
                out.append(f"/-- `Signal::{f['name']}` (signal.rs): initial state word and waker kind -/")
                out.append(f"def {nm} : Nat × WakerKind := {body}"); out.append("")
                ranges[nm] = (start, len(out)); continue
            try: body = L.run()
            except (Unsupported, SyntaxError, StopIteration, IndexError, KeyError, TypeError, AttributeError) as ex:
                problems.append(f"{nm}: {type(ex).__name__}: {ex}"); body = None; L.rt = RET.get(f["ret"], "Unit")
            if nm in stubbed:
                problems.append(f"{nm}: the translation does not type-check in Lean ({stubbed[nm]})"); body = None
            if body is None: body = ".unreachable"; L.unknown = []
            names.append(nm)
            start = len(out) + 1
            out.append(f"/-- `{f['ctx']}::{f['name']}` ({f['file']}) -/")
            extra = ""
            if f["ctx"] == "Signal": extra += " (wk : WakerKind)"
            if "state:u8" in "".join(f["params"]): extra += " (st : Nat)"
            if nm == "spin_cond": extra += " (cond : (Bool → PAct) → PAct)"
            out.append(f"def {nm} (fuel : Nat){extra} (k : {L.rt} → PAct) : PAct :=")
            out += pretty(body).split("\n"); out.append("")
            ranges[nm] = (start, len(out))
            for u in L.unknown: problems.append(f"{nm}: unknown expression `{u}`")
        # pointer.rs: which pointer operations each function performs, by size class
        psrc = strip_verif(strip_comments(open(os.path.join(src_dir, "pointer.rs")).read()))
        ptr_problems, ptr_names = [], []
        pfns = {f["name"]: f for f in find_functions(psrc, "pointer.rs") if f["name"] in PTR_FNS}
        for nm in PTR_FNS:
            unk = []
            try:
                if nm not in pfns: raise Unsupported("function not found")
                body = lower_ptr(pfns[nm], unk)
            except (Unsupported, SyntaxError, IndexError, KeyError, TypeError) as ex:
                ptr_problems.append(f"KanalPtr_{nm}: {type(ex).__name__}: {ex}"); body = '[.unknown "untranslatable"]'
            full = "KanalPtr_" + nm
            if full in stubbed: ptr_problems.append(f"{full}: does not type-check ({stubbed[full]})"); body = '[.unknown "untranslatable"]'
            for u in unk: ptr_problems.append(f"{full}: unknown expression `{u}`")
            ptr_names.append(full); start = len(out) + 1
            out.append(f"/-- `KanalPtr::{nm}` (pointer.rs): the pointer operations performed, `n` = size_of::<T>(), `P` = size of a pointer -/")
            out.append(f"def {full} (n P : Nat) : List PtrOp :=")
            out.append("  " + body); out.append("")
            ranges[full] = (start, len(out))
        out.append("def protoNames : List String := [" + ", ".join(f'"{n}"' for n in names) + "]")
        out.append("def ptrNames : List String := [" + ", ".join(f'"{n}"' for n in ptr_names) + "]")
        out.append("def ptrProblems : List String := [" + ", ".join('"' + q.replace('\\', '/').replace('"', "'") + '"' for q in ptr_problems) + "]")
        out.append("")
        out.append("def protoProblems : List String := [" + ", ".join('"' + p.replace('"', "'").replace("\\", "/") + '"' for p in problems) + "]")
        out += ["", "end Gen", "end Kanal", ""]
        render.ptr = (ptr_names, ptr_problems)
        return "\n".join(out), names, problems, ranges
    text, names, problems, ranges = render({})
    old = open(out_path).read() if os.path.exists(out_path) else None
    if old != text:
        open(out_path, "w").write(text)
        stubbed = {}
        for _ in range(4):
            errs = lean_errors(out_path)
            new = {nm: f"line {l}" for l in errs for nm, (a, b) in ranges.items() if a <= l <= b and nm not in stubbed}
            if not new: break
            stubbed.update(new)
            text, names, problems, ranges = render(stubbed)
            open(out_path, "w").write(text)
    print(f"rs2proto: {len(names)} functions, {len(problems)} problems -> {out_path}")
    for p in problems: print("  problem:", p)
    print(f"rs2proto: pointer.rs {len(render.ptr[0])} functions, {len(render.ptr[1])} problems")
    for p in render.ptr[1]: print("  problem:", p)


if __name__ == "__main__":
    main()
