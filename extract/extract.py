#!/usr/bin/env python3
"""Fact extractor: /repo/src/*.rs -> lean/Kanal/Generated.lean  (DESIGN §4.1).

Not a Rust translator: it extracts exactly the facts that decide a property and that an
execution on this machine cannot reveal (memory orderings, fences), or that are repeated at
many sites and must agree (size tests, admission tests, count guards), plus the struct
fields / unsafe impls the auto-trait model needs and the cleanup facts of the blocked-send
paths.  Every fact family is emitted as Lean data; Kanal/Tie.lean proves shape theorems over
it (so a site the extractor can no longer find fails loudly) and the side models consume it.

usage: extract.py <src dir> <out .lean>     (content-compared: the file is only rewritten on change)
"""
import re, sys, os

def strip_comments(src):
    out, i, n = [], 0, len(src)
    while i < n:
        if src.startswith("//", i):
            j = src.find("\n", i)
            i = n if j < 0 else j
        elif src.startswith("/*", i):
            j = src.find("*/", i)
            i = n if j < 0 else j + 2
        elif src[i] == '"':
            j = i + 1
            while j < n and src[j] != '"':
                j += 2 if src[j] == "\\" else 1
            out.append('""')
            i = j + 1
        else:
            out.append(src[i]); i += 1
    return "".join(out)

def strip_verif(src):
    """Remove everything guarded by `#[cfg(kanal_verif)]` (the verification hooks): the models describe
    the crate as shipped, i.e. with the guard off."""
    src = re.sub(r"#\[cfg_attr\(kanal_verif[^\]]*\]", "", src)
    out, i = [], 0
    tag = "#[cfg(kanal_verif)]"
    while True:
        j = src.find(tag, i)
        if j < 0:
            out.append(src[i:]); break
        out.append(src[i:j])
        k = j + len(tag)
        while k < len(src) and src[k].isspace(): k += 1
        if src.startswith("#[", k):              # further attributes on the same item
            k = src.find("]", k) + 1
            while k < len(src) and src[k].isspace(): k += 1
        if src[k] == "{":
            k = match_brace(src, k)
        elif re.match(r"if\b", src[k:]):
            b = src.find("{", k)
            k = match_brace(src, b)
        else:
            semi = src.find(";", k)
            brace = src.find("{", k)
            if 0 <= brace < semi:                # an item with a body (fn, mod, impl …)
                k = match_brace(src, brace)
            else:
                k = semi + 1
        i = k
    return "".join(out)

def match_brace(s, i):
    """s[i] == '{' -> index after the matching '}'."""
    d = 0
    for j in range(i, len(s)):
        if s[j] == "{": d += 1
        elif s[j] == "}":
            d -= 1
            if d == 0: return j + 1
    raise ValueError("unbalanced braces")

def fn_bodies(src, name):
    """All bodies of `fn <name>` (there may be several: macros expanded textually are not; impl blocks are)."""
    res = []
    for m in re.finditer(r"\bfn\s+" + re.escape(name) + r"\b", src):
        i = src.find("{", m.end())
        semi = src.find(";", m.end())
        if i < 0 or (0 <= semi < i): continue
        res.append(src[i:match_brace(src, i)])
    return res

def block_after(src, pat, start=0):
    m = re.search(pat, src[start:])
    if not m: return None
    i = src.find("{", start + m.end())
    return src[i:match_brace(src, i)]

ORD = {"Relaxed": ".relaxed", "Acquire": ".acquire", "Release": ".release", "AcqRel": ".acqRel", "SeqCst": ".seqCst"}
CMP = {"<": ".lt", "<=": ".le", ">": ".gt", ">=": ".ge", "==": ".eq", "!=": ".ne"}

def atomics(body):
    """Atomic operations in textual order: (kind, ord1, ord2)."""
    ops = []
    pat = re.compile(r"\.\s*(load|store|compare_exchange(?:_weak)?|fetch_add|swap)\s*\(|\bfence\s*\(")
    for m in pat.finditer(body):
        j = body.find("(", m.start())
        d, k = 0, j
        while True:
            if body[k] == "(": d += 1
            elif body[k] == ")":
                d -= 1
                if d == 0: break
            k += 1
        args = body[j + 1:k]
        ords = re.findall(r"Ordering::(\w+)", args)
        kind = m.group(1) or "fence"
        kind = "cas" if kind.startswith("compare_exchange") else kind
        ops.append((kind, ords))
    return ops

def lean_ord(o): return ORD.get(o, ".relaxed /- ? -/")

def size_tests(body):
    """`size_of::<T>() <op> <rhs>` tests in textual order."""
    res = []
    for m in re.finditer(r"size_of::<T>\(\)\s*(<=|>=|==|!=|<|>)\s*(size_of::<\*mut T>\(\)|0)", body):
        res.append((m.group(1), "ptr" if "mut" in m.group(2) else "zero"))
    return res

def main():
    def emit_bool(name, cond): L.append("def %s : Bool := %s" % (name, "true" if cond else "false"))
    def emit_nat(name, n): L.append("def %s : Nat := %d" % (name, n))
    def emit_natlist(name, xs): L.append("def %s : List Nat := [%s]" % (name, ", ".join(xs)))
    srcdir, out = sys.argv[1], sys.argv[2]
    rd = lambda f: strip_verif(strip_comments(open(os.path.join(srcdir, f)).read()))
    lib, fut, sig, ptr, mtx, internal, backoff = (rd(f) for f in
        ("lib.rs", "future.rs", "signal.rs", "pointer.rs", "mutex.rs", "internal.rs", "backoff.rs"))
    L = []
    L.append("/-  GENERATED by /verif/extract/extract.py from /repo/src — do not edit; rewritten by every check run. -/")
    L.append("import Kanal.Basic\n\nnamespace Kanal.Generated\nopen Kanal\n")
    L.append("inductive AKind where\n  | load | store | cas | fence | rmw\n  deriving DecidableEq, Repr\n")
    L.append("structure AtomicSite where\n  kind : AKind\n  ords : List Ord\n  deriving DecidableEq, Repr\n")
    L.append("inductive WStep where\n  | cas | readHandle | cloneWaker | store | unpark | wake\n  deriving DecidableEq, Repr\n")
    L.append("inductive CStep where\n  | test | zeroR | zeroS | terminate | clear\n  deriving DecidableEq, Repr\n")

    # ---- atomics per function
    def emit_atomics(name, body):
        ops = atomics(body) if body else []
        kmap = {"load": ".load", "store": ".store", "cas": ".cas", "fence": ".fence"}
        items = ", ".join('⟨%s, [%s]⟩' % (kmap.get(k, ".rmw"), ", ".join(lean_ord(o) for o in os_)) for k, os_ in ops)
        L.append(f"def atomics_{name} : List AtomicSite := [{items}]")
    for fn in ("poll", "async_blocking_wait", "wait", "wait_timeout", "is_terminated", "wake"):
        b = fn_bodies(sig, fn)
        emit_atomics("signal_" + fn, b[0] if b else None)
    for fn in ("try_lock", "unlock"):
        b = fn_bodies(mtx, fn)
        emit_atomics("mutex_" + fn, b[0] if b else None)
    # which primitive lock() loops on
    lock_body = (fn_bodies(mtx, "lock") or [""])[0]
    lock_ni = (fn_bodies(mtx, "lock_no_inline") or [""])[0]
    emit_bool("mutex_lock_fast_path_try", re.search(r'if\s+self\.try_lock\(\)\s*\{\s*return;', lock_body))
    emit_bool("mutex_lock_slow_spin_cond_try", re.search(r'spin_cond\(\s*\|\|\s*self\.try_lock\(\)\s*\)', lock_ni) and 'lock_no_inline' in lock_body)
    gm = re.search(r"type\s+GuardMarker\s*=\s*(\w+)", mtx)
    L.append("def mutex_guard_marker_is_GuardSend : Bool := %s" % ("true" if gm and gm.group(1) == "GuardSend" else "false"))

    # ---- wake(): structure of the sync and async arms
    wake = (fn_bodies(sig, "wake") or [""])[0]
    sync_arm = block_after(wake, r"KanalWaker::Sync\(\w+\)\s*=>") or ""
    async_arm = block_after(wake, r"KanalWaker::Async\(\w+\)\s*=>") or ""
    def order_of(arm, pats):
        pos = [(arm.find(p), n) for n, p in pats]
        return [n for p, n in sorted(pos) if p >= 0], [n for p, n in pos if p < 0]
    s_seq, s_missing = order_of(sync_arm, [("cas", "compare_exchange"), ("readHandle", ".clone()"), ("store", ".store("), ("unpark", ".unpark()")])
    a_seq, a_missing = order_of(async_arm, [("cloneWaker", ".clone()"), ("store", ".store("), ("wake", ".wake()")])
    L.append("def wake_sync_sequence : List WStep := [%s]" % ", ".join('.%s' % x for x in s_seq))
    L.append("def wake_async_sequence : List WStep := [%s]" % ", ".join('.%s' % x for x in a_seq))
    emit_bool("wake_sync_unpark_only_on_cas_failure", re.search(r'compare_exchange[^;]*\.is_err\(\)\s*\{[^}]*unpark', sync_arm, re.S))
    # Signal::send / recv : payload access before wake
    for nm, acc in (("send", ".ptr.write("), ("recv", ".ptr.read()"), ("send_copy", ".ptr.copy(")):
        b = ([x for x in fn_bodies(sig, nm) if "Self::wake" in x] or [""])[0]
        ok = 0 <= b.find(acc) < b.find("Self::wake")
        L.append(f"def signal_{nm}_payload_before_wake : Bool := {'true' if ok else 'false'}")
    # wait(): park loop re-checks with a load; publish handle before the starvation CAS
    wait = (fn_bodies(sig, "wait") or [""])[0]
    emit_bool("wait_park_in_loop", re.search(r'loop\s*\{\s*std::thread::park\(\);[^}]*load', wait, re.S))
    emit_bool("wait_publish_before_cas", 0 <= wait.find('thread::current()') < wait.find('compare_exchange'))
    spins = re.findall(r"for\s+_\s+in\s+0\.\.(\d+)", wait)
    L.append(f"def spins_wait : List Nat := [{', '.join(spins)}]")
    wt = (fn_bodies(sig, "wait_timeout") or [""])[0]
    emit_natlist("spins_wait_timeout", re.findall(r'for\s+_\s+in\s+0\.\.(\d+)', wt))
    emit_bool("wait_timeout_parks", 'park' in wt)
    abw = (fn_bodies(sig, "async_blocking_wait") or [""])[0]
    emit_natlist("spins_async_blocking_wait", re.findall(r'for\s+_\s+in\s+0\.\.(\d+)', abw))
    consts = dict(re.findall(r"const\s+(UNLOCKED|TERMINATED|LOCKED|LOCKED_STARVATION)\s*:\s*u8\s*=\s*(\d+)", sig))
    L.append("/-- UNLOCKED, TERMINATED, LOCKED, LOCKED_STARVATION -/")
    L.append("def signal_consts : List Nat := [%s]" % ", ".join(consts.get(k, "99") for k in ("UNLOCKED", "TERMINATED", "LOCKED", "LOCKED_STARVATION")))
    fin = re.findall(r"v\s*<\s*(\w+)", wait + wt + abw + (fn_bodies(sig, "poll") or [""])[0])
    L.append("/-- every `v < X` finality test in the waiter functions compares with LOCKED -/")
    L.append("def final_tests_total : Nat := %d" % len(fin))
    L.append("def final_tests_locked : Nat := %d" % len([x for x in fin if x == "LOCKED"]))

    # ---- spin_cond
    sc = (fn_bodies(backoff, "spin_cond") or [""])[0]
    sconst = dict(re.findall(r"const\s+(\w+)\s*:\s*\w+\s*=\s*([\d\s<]+);", sc))
    def cval(x):
        x = x.strip()
        if "<<" in x:
            a, b = x.split("<<"); return int(a) << int(b)
        return int(x)
    L.append("/-- NO_YIELD, SPIN_YIELD, OS_YIELD, ZERO_SLEEP, SPINS -/")
    L.append("def spin_cond_consts : List Nat := [%s]" % ", ".join(str(cval(sconst[k])) if k in sconst else "999" for k in ("NO_YIELD", "SPIN_YIELD", "OS_YIELD", "ZERO_SLEEP", "SPINS")))
    mx = re.search(r"spins\s*<\s*\(1\s*<<\s*(\d+)\)", sc)
    L.append("def spin_cond_spin_max_log2 : Nat := %s" % (mx.group(1) if mx else "0"))
    emit_bool("spin_cond_par1_loop", re.search(r'get_parallelism\(\)\s*==\s*1\s*\{\s*while\s*!cond\(\)\s*\{\s*yield_now_std\(\);\s*\}\s*return;', sc))
    # every `return` in spin_cond is guarded by cond() (or is the par-1 return after the while)
    rets = [m.start() for m in re.finditer(r"\breturn\b", sc)]
    guarded = sum(1 for r in rets if re.search(r"if\s+cond\(\)\s*\{\s*$", sc[:r])) + (1 if re.search(r"while\s*!cond\(\)\s*\{[^}]*\}\s*return", sc) else 0)
    emit_nat("spin_cond_returns", len(rets))
    L.append(f"def spin_cond_returns_guarded : Nat := {guarded}")
    emit_bool("spin_cond_outer_loop", re.search(r'\n\s*loop\s*\{', sc))

    # ---- size tests
    def emit_sizes(name, body):
        ts = size_tests(body or "")
        L.append(f"def sizeTests_{name} : List (Cmp × Bool) := [%s]" % ", ".join('(%s, %s)' % (CMP[o], "true" if r == "ptr" else "false") for o, r in ts))
    for fn in ("new_from", "new_owned", "new_write_address_ptr", "read", "write", "copy"):
        emit_sizes("ptr_" + fn, (fn_bodies(ptr, fn) or [None])[0])
    emit_sizes("ptr_store_as_kanal_ptr", (fn_bodies(ptr, "store_as_kanal_ptr") or [None])[0])
    emit_sizes("ptr_new_unchecked", (fn_bodies(ptr, "new_unchecked") or [None])[0])
    recv_b = [b for b in fn_bodies(lib, "recv") if "push_recv" in b]
    emit_sizes("lib_recv", recv_b[0] if recv_b else None)
    emit_sizes("lib_recv_timeout", (fn_bodies(lib, "recv_timeout") or [None])[0])
    sf = block_after(fut, r"impl<'a,\s*T>\s*SendFuture<'a,\s*T>") or ""
    rf = block_after(fut, r"impl<'a,\s*T>\s*ReceiveFuture<'a,\s*T>") or ""
    for nm, blk in (("send", sf), ("recv", rf)):
        for fn in ("new", "read_local_data", "drop_local_data"):
            b = fn_bodies(blk, fn)
            if b: emit_sizes(f"fut_{nm}_{fn}", b[0])
    polls = fn_bodies(fut, "poll")
    emit_sizes("fut_send_poll", polls[0] if polls else None)
    emit_sizes("fut_recv_poll", polls[1] if len(polls) > 1 else None)

    # ---- admission tests, closed tests (per send-like entry point)
    send_fns = {}
    for fn in ("send", "send_timeout", "send_option_timeout"):
        bs = [b for b in fn_bodies(lib, fn) if "push_send" in b]
        send_fns[fn] = bs[0] if bs else ""
    macro_send = block_after(lib, r"macro_rules!\s*shared_send_impl") or ""
    for fn in ("try_send", "try_send_option", "try_send_realtime", "try_send_option_realtime"):
        send_fns[fn] = (fn_bodies(macro_send, fn) or [""])[0]
    send_fns["send_future_poll"] = polls[0] if polls else ""
    adm, closed = [], []
    for fn, b in send_fns.items():
        m = re.search(r"internal\.queue\.len\(\)\s*(<=|>=|==|!=|<|>)\s*internal\.capacity", b)
        adm.append('("%s", %s)' % (fn, CMP[m.group(1)] if m else ".ne /- missing -/"))
        c1 = re.search(r"if\s+internal\.recv_count\s*(==|!=|<=|>=|<|>)\s*0", b)
        c2 = re.search(r"if\s+send_count\s*(==|!=|<=|>=|<|>)\s*0\s*\{[^}]*Closed", b, re.S)
        order_ok = bool(c1 and "next_recv" in b and b.find("recv_count") < b.find("next_recv") < b.find("queue.len()"))
        closed.append('("%s", %s, %s, %s)' % (fn, CMP[c1.group(1)] if c1 else ".ne", CMP[c2.group(1)] if c2 else ".ne", "true" if order_ok else "false"))
    L.append("def admission : List (String × Cmp) := [%s]" % ", ".join(adm))
    L.append("/-- (entry point, `recv_count <op> 0` guard, `send_count <op> 0` → Closed, closed-test < next_recv < admission order) -/")
    L.append("def send_guards : List (String × Cmp × Cmp × Bool) := [%s]" % ", ".join(closed))
    # realtime variants use try_acquire_internal, the others acquire_internal
    L.append("/-- (entry point, `some true` = try_acquire_internal, `some false` = acquire_internal) -/\ndef lock_acquisition : List (String × Option Bool) := [%s]" % ", ".join(
        '("%s", %s)' % (fn, "some true" if "try_acquire_internal" in b else ("some false" if "acquire_internal" in b else "none")) for fn, b in send_fns.items()))
    macro_recv = block_after(lib, r"macro_rules!\s*shared_recv_impl") or ""
    recv_fns = {"recv": recv_b[0] if recv_b else "", "recv_timeout": (fn_bodies(lib, "recv_timeout") or [""])[0],
                "try_recv": (fn_bodies(macro_recv, "try_recv") or [""])[0],
                "try_recv_realtime": (fn_bodies(macro_recv, "try_recv_realtime") or [""])[0],
                "drain_into": (fn_bodies(macro_recv, "drain_into") or [""])[0],
                "recv_future_poll": polls[1] if len(polls) > 1 else ""}
    rg = []
    for fn, b in recv_fns.items():
        c1 = re.search(r"if\s+internal\.recv_count\s*(==|!=|<=|>=|<|>)\s*0", b)
        c2 = re.search(r"if\s+internal\.send_count\s*(==|!=|<=|>=|<|>)\s*0", b)
        buf_first = (0 <= b.find("queue.pop_front") < b.find("send_count")) if c2 else True
        rg.append('("%s", %s, %s, %s)' % (fn, CMP[c1.group(1)] if c1 else ".ne", CMP[c2.group(1)] if c2 else ".eq /- none -/", "true" if buf_first else "false"))
    L.append("/-- (entry point, `recv_count <op> 0` guard, `send_count <op> 0` disconnect test, buffer consulted before the disconnect test) -/")
    L.append("def recv_guards : List (String × Cmp × Cmp × Bool) := [%s]" % ", ".join(rg))
    L.append("def recv_lock_acquisition : List (String × Option Bool) := [%s]" % ", ".join(
        '("%s", %s)' % (fn, "some true" if "try_acquire_internal" in b else ("some false" if "acquire_internal" in b else "none")) for fn, b in recv_fns.items()))
    m = re.search(r"Instant::now\(\)\s*(<=|>=|==|!=|<|>)\s*deadline", recv_fns["recv_timeout"])
    L.append(f"def recv_timeout_precheck : Cmp := {CMP[m.group(1)] if m else '.ne'}")
    m = re.search(r"while\s+Instant::now\(\)\s*(<=|>=|==|!=|<|>)\s*until", wt)
    L.append(f"def wait_timeout_loop_test : Cmp := {CMP[m.group(1)] if m else '.ne'}")
    # drain_into: count computed from queue.len + (recv_blocking ? 0 : wait_list.len)
    dr = recv_fns["drain_into"]
    emit_bool("drain_count_guarded_by_flag", re.search(r'if\s+internal\.recv_blocking\s*\{\s*0\s*\}\s*else\s*\{\s*internal\.wait_list\.len\(\)', dr))
    emit_bool("drain_buffer_before_senders", 0 <= dr.find('queue.pop_front') < dr.find('next_send'))
    emit_bool("drain_returns_required_cap", re.search(r'Ok\(required_cap\)', dr))
    emit_nat("drain_lock_acquisitions", len(re.findall(r'acquire_internal\(', dr)))
    emit_bool("drain_never_releases_lock", 'drop(internal)' not in dr)

    # ---- count guards of Clone / Drop / clone_* / close
    cg = []
    for m in re.finditer(r"if\s+internal\.(send|recv)_count\s*(==|!=|<=|>=|<|>)\s*0\s*\{\s*internal\.(send|recv)_count\s*(\+=|-=)\s*1", lib):
        cg.append('(%s, %s, %s)' % ("true" if m.group(1) == "send" else "false", CMP[m.group(2)], "true" if m.group(4) == "+=" else "false"))
    L.append("/-- (send side?, guard `count <op> 0`, increment?) -/")
    L.append("def count_guards : List (Bool × Cmp × Bool) := [%s]" % ", ".join(cg))
    term = re.findall(r"if\s+internal\.(send|recv)_count\s*(==|!=)\s*0\s*&&\s*internal\.(send|recv)_count\s*(==|!=)\s*0\s*\{\s*internal\.terminate_signals\(\)", lib)
    L.append("/-- (own side is send?, own count `<op> 0`, other side is send?, other count `<op> 0`) guarding terminate_signals in Drop -/")
    L.append("def drop_terminate_guards : List (Bool × Cmp × Bool × Cmp) := [%s]" % ", ".join('(%s, %s, %s, %s)' % ("true" if a == "send" else "false", CMP[b], "true" if c == "send" else "false", CMP[d]) for a, b, c, d in term))
    close_b = (fn_bodies(lib, "close") or [""])[0]
    def pos(s): return close_b.find(s)
    close_seq = [n for p, n in sorted((pos(s), n) for n, s in (("test", "recv_count == 0 && internal.send_count == 0"), ("zeroR", "recv_count = 0"), ("zeroS", "send_count = 0"), ("terminate", "terminate_signals()"), ("clear", "queue.clear()"))) if p >= 0]
    L.append("def close_sequence : List CStep := [%s]" % ", ".join('.%s' % x for x in close_seq))
    L.append(f"def close_single_guard : Nat := {close_b.count('acquire_internal')}")

    # ---- one lock acquisition per critical section (C03)
    sdrop = block_after(fut, r"impl<T>\s*Drop\s+for\s+SendFuture") or ""
    rdrop = block_after(fut, r"impl<T>\s*Drop\s+for\s+ReceiveFuture") or ""
    all_fns = dict(send_fns); all_fns.update(recv_fns)
    order = ["send", "send_timeout", "send_option_timeout", "try_send", "try_send_option", "try_send_realtime", "try_send_option_realtime",
             "send_future_poll", "recv", "recv_timeout", "try_recv", "try_recv_realtime", "drain_into", "recv_future_poll"]
    L.append("/-- lock acquisitions (blocking + try) per entry point: " + ", ".join(order) + " -/")
    L.append("def lock_counts : List Nat := [%s]" % ", ".join(str(len(re.findall(r'acquire_internal\(', all_fns.get(f, "")))) for f in order))
    macro_shared = block_after(lib, r"macro_rules!\s*shared_impl") or ""
    obs = ["is_bounded", "len", "is_empty", "is_full", "capacity", "receiver_count", "sender_count", "close", "is_closed"]
    L.append("/-- lock acquisitions of the shared observers and close: " + ", ".join(obs) + " -/")
    L.append("def observer_lock_counts : List Nat := [%s]" % ", ".join(str(len(re.findall(r'acquire_internal\(', (fn_bodies(macro_shared, f) or [""])[0]))) for f in obs))
    sdrop_n = len(re.findall(r'acquire_internal\(', sdrop)); rdrop_n = len(re.findall(r'acquire_internal\(', rdrop))
    L.append("def future_drop_lock_counts : List Nat := [%d, %d]" % (sdrop_n, rdrop_n))
    # every function of lib.rs that takes the channel lock, directly or by calling a lock-taking method on self:
    # total number of lock sections it is composed of (an observer composed of two observers is not one snapshot)
    allf = []
    for m in re.finditer(r"\bfn\s+(\w+)\s*(<[^>]*>)?\s*\(", lib):
        i = lib.find("{", m.end()); semi = lib.find(";", m.end())
        if i < 0 or (0 <= semi < i): continue
        allf.append((m.group(1), lib[i:match_brace(lib, i)]))
    locking = {n for n, b in allf if re.search(r"acquire_internal\(", b)}
    tot = [(n, len(re.findall(r"acquire_internal\(", b)) + len([c for c in re.findall(r"self\.(\w+)\(", b) if c in locking])) for n, b in allf]
    tot = [(n, k) for n, k in tot if k > 0]
    timed3 = ("send_timeout", "send_option_timeout", "recv_timeout")
    L.append("/-- lock sections (own acquisitions + calls of lock-taking methods on self) of every lock-taking fn of lib.rs except the timed calls: " + ", ".join(n for n, k in tot if n not in timed3) + " -/")
    L.append("def api_lock_totals : List Nat := [%s]" % ", ".join(str(k) for n, k in tot if n not in timed3))
    L.append("def api_lock_totals_timed : List Nat := [%s]" % ", ".join(str(k) for n, k in tot if n in timed3))
    reacq = [f for f in order if re.search(r"drop\(internal\)[^}]*\binternal\s*=\s*acquire_internal", all_fns.get(f, ""), re.S)]
    emit_nat("reacquire_after_release_sites", len(reacq))

    # ---- internal.rs list functions
    for fn, flagtest in (("next_send", r"if\s+self\.recv_blocking\s*\{\s*return\s+None"), ("next_recv", r"if\s*!self\.recv_blocking\s*\{\s*return\s+None")):
        b = (fn_bodies(internal, fn) or [""])[0]
        L.append(f"def {fn}_shape : Bool := {'true' if re.search(flagtest, b) and 'pop_front' in b else 'false'}")
    for fn in ("push_send", "push_recv"):
        b = (fn_bodies(internal, fn) or [""])[0]
        L.append(f"def {fn}_back : Bool := {'true' if 'push_back' in b else 'false'}")
    for fn in ("cancel_send_signal", "cancel_recv_signal"):
        b = (fn_bodies(internal, fn) or [""])[0]
        emit_bool(fn + "_remove", re.search(r'wait_list\.remove\(i\)', b) and 'swap_remove' not in b)
    emit_nat("refill_push_back", len(re.findall(r'internal\.queue\.push_back\(\s*[pt]\.recv\(\)\s*\)', lib + fut)))
    emit_nat("queue_pop_front_sites", len(re.findall(r'queue\.pop_front\(\)', lib + fut)))
    emit_nat("queue_pop_back_sites", len(re.findall(r'queue\.pop_back\(\)', lib + fut)))
    emit_nat("queue_push_front_sites", len(re.findall(r'queue\.push_front\(', lib + fut)))

    # ---- variant facts (D1–D5)
    st = send_fns["send_timeout"]
    cancel_blk = block_after(st, r"if\s+internal\.cancel_send_signal\(&sig\)") or ""
    emit_bool("d1_timeout_drops", 'assume_init_drop' in cancel_blk)
    sot = send_fns["send_option_timeout"]
    plain_local = bool(re.search(r"let\s+mut\s+d\s*=\s*data\.take\(\)\.unwrap\(\)\s*;", sot))
    L.append(f"def d2_option_value_in_maybeuninit : Bool := {'false' if plain_local else 'true'}")
    rpoll = recv_fns["recv_future_poll"]
    reset = block_after(rpoll, r"if\s+this\.is_stream") or ""
    emit_bool("d3_stream_rearm", re.search(r'this\.sig\s*=\s*Signal::new_async\(\)', reset))
    spoll = send_fns["send_future_poll"]
    def refresh_under_guard(poll, exists_fn):
        # `let <g> = acquire_internal(..); if <g>.<exists_fn>(..) { … register_waker … drop(<g>) …`
        m = re.search(r"let\s+(\w+)\s*=\s*acquire_internal\(this\.internal\);\s*if\s+\1\." + exists_fn + r"\(&this\.sig\)\s*\{", poll)
        if not m: return False, ("register_waker" in (block_after(poll, exists_fn + r"\(&this\.sig\)") or ""))
        blk = poll[poll.find("{", m.end() - 1):]
        blk = blk[:match_brace(blk, 0)]
        r, d = blk.find("register_waker"), blk.find("drop(" + m.group(1) + ")")
        return (0 <= r and (d < 0 or r < d)), (0 <= r)
    s_locked, s_refresh = refresh_under_guard(spoll, "send_signal_exists")
    r_locked, r_refresh = refresh_under_guard(rpoll, "recv_signal_exists")
    emit_bool("d4_send_waker_refresh", s_refresh)
    emit_bool("d4_send_waker_refresh_under_lock", s_locked)
    emit_bool("d5_recv_waker_refresh", r_refresh)
    emit_bool("d5_recv_waker_refresh_under_lock", r_locked)
    # cleanup of `send` on the failure exit, SendFuture::drop structure
    sb = send_fns["send"]
    emit_bool("send_drops_on_failure", re.search(r'if\s*!sig\.wait\(\)\s*\{[^}]*assume_init_drop', sb, re.S))
    emit_nat("send_timeout_drops_on_terminate", len(re.findall(r'assume_init_drop', st)))
    sdrop = block_after(fut, r"impl<T>\s*Drop\s+for\s+SendFuture") or ""
    emit_bool("send_future_drop_cancels", 'cancel_send_signal' in sdrop and 'async_blocking_wait' in sdrop)
    rdrop = block_after(fut, r"impl<T>\s*Drop\s+for\s+ReceiveFuture") or ""
    emit_bool("recv_future_drop_cancels", 'cancel_recv_signal' in rdrop and 'async_blocking_wait' in rdrop and 'drop_local_data' in rdrop)

    # ---- ADTs, repr(C), unsafe impls (auto-trait model)
    def struct_fields(src, name):
        m = re.search(r"(?:pub(?:\(crate\))?\s+)?struct\s+" + name + r"\b[^{;(]*\{", src)
        if m:
            i = src.find("{", m.start())
            body = src[i + 1:match_brace(src, i) - 1]
            parts, depth, cur = [], 0, ""
            for ch in body:
                if ch in "<([": depth += 1
                elif ch in ">)]": depth -= 1
                if ch == "," and depth == 0:
                    parts.append(cur); cur = ""
                else:
                    cur += ch
            parts.append(cur)
            fields = []
            for part in parts:
                part = re.sub(r"#\[[^\]]*\]", "", part).strip()
                mm = re.match(r"(?:pub(?:\(crate\))?\s+)?(\w+)\s*:\s*(.+)$", part, re.S)
                if mm: fields.append((mm.group(1), mm.group(2)))
            return [(a, re.sub(r"\s+", " ", b.strip())) for a, b in fields]
        m = re.search(r"struct\s+" + name + r"\b[^;{]*\(([^;]*)\)\s*;", src)
        if m: return [("0", re.sub(r"\s+", " ", m.group(1).strip()))]
        return None
    adts = []
    for src, names in ((lib, ["Sender", "AsyncSender", "Receiver", "AsyncReceiver"]), (sig, ["Signal", "SignalTerminator"]),
                       (ptr, ["KanalPtr"]), (internal, ["ChannelInternal"]), (fut, ["SendFuture", "ReceiveFuture", "ReceiveStream"]), (mtx, ["RawMutexLock"])):
        for n in names:
            f = struct_fields(src, n)
            adts.append('("%s", [%s])' % (n, ", ".join('("%s", "%s")' % (a, b.replace('"', "'")) for a, b in (f or []))))
    L.append("def adts : List (String × List (String × String)) := [\n  %s]" % ",\n  ".join(adts))
    kw = re.search(r"enum\s+KanalWaker\s*\{", sig)
    kwb = sig[kw.end():match_brace(sig, kw.end() - 1)] if kw else ""
    L.append("def kanalWaker_variants : List String := [%s]" % ", ".join('"%s"' % re.sub(r"\s+", "", v) for v in re.findall(r"^\s*(\w+(?:\([^)]*\))?)\s*,", kwb, re.M)))
    L.append("def internal_alias : String := \"%s\"" % re.sub(r"\s+", "", (re.search(r"type\s+Internal<T>\s*=\s*([^;]+);", internal) or [None, "?"])[1]))
    reprc = [n for n in ("Sender", "AsyncSender", "Receiver", "AsyncReceiver") if re.search(r"#\[repr\(C\)\]\s*pub\s+struct\s+" + n + r"\b", lib)]
    L.append("def reprC : List String := [%s]" % ", ".join('"%s"' % x for x in reprc))
    impls = []
    for src in (lib, sig, ptr, internal, fut, mtx):
        for m in re.finditer(r"unsafe\s+impl\s*(<[^>]*>)?\s*(Send|Sync)\s+for\s+(\w+)", src):
            bounds = re.sub(r"\s+", "", m.group(1) or "")
            impls.append('("%s", "%s", "%s")' % (m.group(3), m.group(2), bounds))
    L.append("def unsafeImpls : List (String × String × String) := [%s]" % ", ".join(impls))
    tr = len(re.findall(r"unsafe\s*\{\s*transmute\(self\)\s*\}", lib))
    L.append(f"def transmute_sites : Nat := {tr}")

    # ---- auto-trait model input: ADT fields as structured types
    L.append("")
    L.append("inductive Adt where\n  | Sender | AsyncSender | Receiver | AsyncReceiver | Signal | SignalTerminator | KanalPtr | ChannelInternal\n  | SendFuture | ReceiveFuture | ReceiveStream | RawMutexLock | KanalWaker | FutureState | Unknown\n  deriving DecidableEq, Repr")
    L.append("inductive Ty where\n  | param | prim | atomic | waker | thread | phantomPinned\n  | rawPtr (t : Ty) | unsafeCell (t : Ty) | maybeUninit (t : Ty) | option (t : Ty) | vecDeque (t : Ty)\n  | box (t : Ty) | pin (t : Ty) | arc (t : Ty) | ref (t : Ty) | mutex (raw : Ty) (t : Ty) | adt (a : Adt) | unknown\n  deriving DecidableEq, Repr")
    ADTS = ["Sender", "AsyncSender", "Receiver", "AsyncReceiver", "Signal", "SignalTerminator", "KanalPtr", "ChannelInternal",
            "SendFuture", "ReceiveFuture", "ReceiveStream", "RawMutexLock", "KanalWaker", "FutureState"]
    alias = re.search(r"type\s+Internal<T>\s*=\s*([^;]+);", internal)
    alias_rhs = alias.group(1).strip() if alias else "?"
    mutex_alias = re.search(r"pub\s+type\s+Mutex<T>\s*=\s*lock_api::Mutex<(\w+),\s*T>", mtx)
    raw_name = mutex_alias.group(1) if mutex_alias else "?"
    def split_args(t):
        parts, depth, cur = [], 0, ""
        for ch in t:
            if ch == "<": depth += 1
            elif ch == ">": depth -= 1
            if ch == "," and depth == 0:
                parts.append(cur.strip()); cur = ""
            else:
                cur += ch
        if cur.strip(): parts.append(cur.strip())
        return [p for p in parts if not p.startswith("'")]
    def ty(t):
        t = t.strip()
        if t.startswith("&"):
            t2 = re.sub(r"^&\s*('\w+\s+)?(mut\s+)?", "", t)
            return "(.ref %s)" % ty(t2)
        if t.startswith("*const") or t.startswith("*mut"):
            return "(.rawPtr %s)" % ty(re.sub(r"^\*(const|mut)\s+", "", t))
        m = re.match(r"([\w:]+)\s*(<(.*)>)?$", t, re.S)
        if not m: return ".unknown"
        name, args = m.group(1).split("::")[-1], split_args(m.group(3)) if m.group(3) else []
        if name == "T": return ".param"
        if name in ("bool", "usize", "u8", "u16", "u32", "u64", "isize"): return ".prim"
        if name in ("AtomicU8", "AtomicBool", "AtomicUsize", "AtomicU32"): return ".atomic"
        if name == "Waker": return ".waker"
        if name == "Thread": return ".thread"
        if name == "PhantomPinned": return ".phantomPinned"
        one = {"UnsafeCell": "unsafeCell", "MaybeUninit": "maybeUninit", "Option": "option", "VecDeque": "vecDeque",
               "Box": "box", "Pin": "pin", "Arc": "arc"}
        if name in one and len(args) == 1: return "(.%s %s)" % (one[name], ty(args[0]))
        if name == "Internal": return ty(alias_rhs)
        if name == "Mutex" and len(args) == 1: return "(.mutex (.adt .%s) %s)" % (raw_name if raw_name in ADTS else "Unknown", ty(args[0]))
        if name in ADTS: return "(.adt .%s)" % name
        return ".unknown"
    rows = []
    for src, names in ((lib, ["Sender", "AsyncSender", "Receiver", "AsyncReceiver"]), (sig, ["Signal", "SignalTerminator"]),
                       (ptr, ["KanalPtr"]), (internal, ["ChannelInternal"]), (fut, ["SendFuture", "ReceiveFuture", "ReceiveStream"]), (mtx, ["RawMutexLock"])):
        for n in names:
            f = struct_fields(src, n) or []
            rows.append("(.%s, [%s])" % (n, ", ".join(ty(b) for a, b in f)))
    # enums: KanalWaker (payload types of its variants), FutureState (field-less)
    kwf = []
    for v in re.findall(r"^\s*\w+\(([^)]*)\)\s*,", kwb, re.M):
        kwf.append(ty(v))
    rows.append("(.KanalWaker, [%s])" % ", ".join(kwf))
    rows.append("(.FutureState, [])")
    L.append("def adtFields : List (Adt × List Ty) := [\n  %s]" % ",\n  ".join(rows))
    ui = []
    for src in (lib, sig, ptr, internal, fut, mtx):
        for m in re.finditer(r"unsafe\s+impl\s*(<[^>]*>)?\s*(Send|Sync)\s+for\s+(\w+)", src):
            bounds = re.sub(r"\s+", "", m.group(1) or "")
            nm = m.group(3) if m.group(3) in ADTS else "Unknown"
            ui.append("(.%s, %s, %s, %s)" % (nm, "true" if m.group(2) == "Send" else "false",
                                              "true" if re.search(r"T:[^,>]*Send", bounds) else "false",
                                              "true" if re.search(r"T:[^,>]*Sync", bounds) else "false"))
    L.append("/-- (type, the impl is for Send (else Sync), bound requires T: Send, bound requires T: Sync) -/")
    L.append("def unsafeAutoImpls : List (Adt × Bool × Bool × Bool) := [%s]" % ", ".join(ui))
    # explicit `impl Unpin for X` (safe to write; switches the structural derivation off)
    up = []
    for src in (lib, sig, ptr, internal, fut, mtx):
        for m in re.finditer(r"\bimpl\s*(<[^>]*>)?\s*(?:\w+::)*Unpin\s+for\s+(\w+)", src):
            up.append(".%s" % (m.group(2) if m.group(2) in ADTS else "Unknown"))
    L.append("/-- types with an explicit `impl Unpin` -/")
    L.append("def unpinImpls : List Adt := [%s]" % ", ".join(up))
    emit_bool("handles_reprC_single_internal", all(
        re.search(r"#\[repr\(C\)\]\s*pub\s+struct\s+" + n + r"<T>\s*\{\s*internal\s*:\s*Internal<T>\s*,?\s*\}", lib) for n in ("Sender", "AsyncSender", "Receiver", "AsyncReceiver")))
    emit_bool("internal_alias_is_arc_mutex", re.sub(r"\s+", "", alias_rhs) == "Arc<Mutex<ChannelInternal<T>>>")
    L.append("\nend Kanal.Generated")
    text = "\n".join(L) + "\n"
    old = open(out).read() if os.path.exists(out) else None
    if old != text:
        open(out, "w").write(text)
        print("Generated.lean rewritten")
    else:
        print("Generated.lean unchanged")

if __name__ == "__main__":
    main()
